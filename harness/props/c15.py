"""C15 — every generated sequence header encodes exactly the requested video format."""
import copy
import importlib
import json
import sys
from io import BytesIO

sys.path.insert(0, "/repo/tests")


def rand_format(rng):
    """a video format near a base video format, with a real level that admits it when there is one"""
    from sample_codec_features import MINIMAL_CODEC_FEATURES as CF
    from vc2_conformance.codec_features import CodecFeatures
    from vc2_conformance.pseudocode.video_parameters import set_source_defaults
    from vc2_data_tables import (BaseVideoFormats, Levels, PictureCodingModes, ColorDifferenceSamplingFormats, SourceSamplingModes,
                                 PresetColorPrimaries, PresetColorMatrices, PresetTransferFunctions, PRESET_FRAME_RATES,
                                 PRESET_PIXEL_ASPECT_RATIOS, PRESET_SIGNAL_RANGES, PRESET_COLOR_SPECS)

    base = rng.choice(list(BaseVideoFormats))
    vp = set_source_defaults(base)
    for _ in range(rng.choice([0, 1, 1, 2, 3, 5])):
        k = rng.choice(["size", "cdf", "ss", "rate", "par", "clean", "range", "colorspec", "primaries", "matrix", "tf"])
        if k == "size":
            vp["frame_width"] += rng.choice([-2, 2, 16])
            vp["frame_height"] += rng.choice([-2, 2, 8])
            vp["clean_width"], vp["clean_height"] = min(vp["clean_width"], vp["frame_width"]), min(vp["clean_height"], vp["frame_height"])
        elif k == "cdf":
            vp["color_diff_format_index"] = rng.choice(list(ColorDifferenceSamplingFormats))
        elif k == "ss":
            vp["source_sampling"] = rng.choice(list(SourceSamplingModes))
        elif k == "rate":
            if rng.random() < 0.7:
                vp["frame_rate_numer"], vp["frame_rate_denom"] = rng.choice(list(PRESET_FRAME_RATES.values()))
            else:
                vp["frame_rate_numer"], vp["frame_rate_denom"] = rng.randrange(1, 200), rng.choice([1, 1001])
        elif k == "par":
            if rng.random() < 0.7:
                vp["pixel_aspect_ratio_numer"], vp["pixel_aspect_ratio_denom"] = rng.choice(list(PRESET_PIXEL_ASPECT_RATIOS.values()))
            else:
                vp["pixel_aspect_ratio_numer"], vp["pixel_aspect_ratio_denom"] = rng.randrange(1, 50), rng.randrange(1, 50)
        elif k == "clean":
            vp["clean_width"] = max(1, vp["frame_width"] - rng.choice([0, 2, 8]))
            vp["clean_height"] = max(1, vp["frame_height"] - rng.choice([0, 2, 8]))
            vp["left_offset"] = rng.choice([0, vp["frame_width"] - vp["clean_width"]])
            vp["top_offset"] = rng.choice([0, vp["frame_height"] - vp["clean_height"]])
        elif k == "range":
            if rng.random() < 0.7:
                sr = rng.choice(list(PRESET_SIGNAL_RANGES.values()))
                vp["luma_offset"], vp["luma_excursion"], vp["color_diff_offset"], vp["color_diff_excursion"] = sr
            else:
                d = rng.choice([8, 10, 12])
                vp["luma_offset"], vp["luma_excursion"] = rng.choice([0, 16]), (1 << d) - rng.choice([1, 37])
                vp["color_diff_offset"], vp["color_diff_excursion"] = 1 << (d - 1), (1 << d) - rng.choice([1, 33])
        elif k == "colorspec":
            cs = rng.choice(list(PRESET_COLOR_SPECS.values()))
            vp["color_primaries_index"], vp["color_matrix_index"], vp["transfer_function_index"] = cs
        elif k == "primaries":
            vp["color_primaries_index"] = rng.choice(list(PresetColorPrimaries))
        elif k == "matrix":
            vp["color_matrix_index"] = rng.choice(list(PresetColorMatrices))
        elif k == "tf":
            vp["transfer_function_index"] = rng.choice(list(PresetTransferFunctions))
    pcm = rng.choice([0, 1])
    # a regular format: frame size a multiple of the subsampling (and of the field structure)
    cdf = int(vp["color_diff_format_index"])
    mw = 2 if cdf >= 1 else 1
    mh = (2 if cdf == 2 else 1) * (2 if pcm == 1 else 1)
    vp["frame_width"] = -(-vp["frame_width"] // mw) * mw
    vp["frame_height"] = -(-vp["frame_height"] // mh) * mh
    # keep the clean area inside the frame (a valid video format)
    vp["clean_width"] = max(1, min(vp["clean_width"], vp["frame_width"]))
    vp["clean_height"] = max(1, min(vp["clean_height"], vp["frame_height"]))
    vp["left_offset"] = min(vp["left_offset"], vp["frame_width"] - vp["clean_width"])
    vp["top_offset"] = min(vp["top_offset"], vp["frame_height"] - vp["clean_height"])
    level = Levels.unconstrained if rng.random() < 0.7 else rng.choice(list(Levels))
    return CodecFeatures(CF, name="fmt", level=level, video_parameters=vp,
                         picture_coding_mode=PictureCodingModes(pcm))


def level_formats():
    """formats the REAL levels admit: for every column of the level table, every base video format and picture
    coding mode it lists, the base format as it stands (and with another preset frame rate where the column allows
    a custom one), with profile / wavelet / depth / slice counts / slice bytes taken from the same column"""
    from sample_codec_features import MINIMAL_CODEC_FEATURES as CF
    from vc2_conformance.codec_features import CodecFeatures
    from vc2_conformance.level_constraints import LEVEL_CONSTRAINTS
    from vc2_conformance.constraint_table import AnyValue
    from vc2_conformance.pseudocode.video_parameters import set_source_defaults
    from vc2_data_tables import BaseVideoFormats, Levels, PictureCodingModes, Profiles, WaveletFilters, PRESET_FRAME_RATES

    def first(vs, default):
        if isinstance(vs, AnyValue):
            return default
        vals = sorted(vs.iter_values())
        return vals[0] if vals else default

    out, seen = [], set()
    for col in LEVEL_CONSTRAINTS:
        if isinstance(col["level"], AnyValue) or isinstance(col["base_video_format"], AnyValue):
            continue
        for lv in col["level"].iter_values():
            if lv == 0:
                continue
            for base in sorted(col["base_video_format"].iter_values()):
                for pcm in ([0, 1] if isinstance(col["picture_coding_mode"], AnyValue) else sorted(col["picture_coding_mode"].iter_values())):
                    prof = first(col["profile"], 3)
                    kw = dict(level=Levels(lv), profile=Profiles(prof), picture_coding_mode=PictureCodingModes(pcm),
                              wavelet_index=WaveletFilters(first(col["wavelet_index"], 1)), wavelet_index_ho=WaveletFilters(first(col["wavelet_index"], 1)),
                              dwt_depth=first(col["dwt_depth"], 2), dwt_depth_ho=0,
                              slices_x=first(col["slices_x"], 1), slices_y=first(col["slices_y"], 1))
                    if prof == 0:
                        n = kw["slices_x"] * kw["slices_y"]
                        num, den = first(col["slice_bytes_numerator"], 64), first(col["slice_bytes_denominator"], 1)
                        kw["picture_bytes"] = max(1, (num * n) // den)
                        kw["lossless"] = False
                    vps = [set_source_defaults(BaseVideoFormats(base))]
                    if isinstance(col["custom_frame_rate_flag"], AnyValue) or True in col["custom_frame_rate_flag"]:
                        for idx, (nu, de) in sorted(PRESET_FRAME_RATES.items()):
                            if (isinstance(col["frame_rate_index"], AnyValue) or int(idx) in col["frame_rate_index"]) and (nu, de) != (vps[0]["frame_rate_numer"], vps[0]["frame_rate_denom"]):
                                v = set_source_defaults(BaseVideoFormats(base))
                                v["frame_rate_numer"], v["frame_rate_denom"] = nu, de
                                vps.append(v)
                                break
                    for vp in vps:
                        key = (lv, base, pcm, prof, vp["frame_rate_numer"], vp["frame_rate_denom"])
                        if key in seen:
                            continue
                        seen.add(key)
                        try:
                            out.append(CodecFeatures(CF, name="fmt", video_parameters=vp, **kw))
                        except Exception:  # noqa
                            pass
    return out


def decode_header(cf, header):
    """serialise [header, end of sequence] and run the REAL validator, capturing what its sequence_header returns"""
    from vc2_conformance.bitstream import Stream, Sequence, DataUnit, ParseInfo, autofill_and_serialise_stream
    from vc2_conformance import decoder
    from vc2_conformance.pseudocode.state import State
    from vc2_data_tables import ParseCodes

    header = copy.deepcopy(header)
    # the major_version a level demands is not consulted by the encoder (known finding F8 of C16); it is not what this
    # property is about (the source parameters), so the carrier stream states the version the level asks for
    from vc2_conformance.level_constraints import LEVEL_CONSTRAINTS
    from vc2_conformance.constraint_table import AnyValue

    versions = set()
    for col in LEVEL_CONSTRAINTS:
        if int(cf["level"]) in col["level"] and not isinstance(col["major_version"], AnyValue):
            versions |= set(col["major_version"].iter_values())
    if versions:
        header["parse_parameters"]["major_version"] = min(versions)
    f = BytesIO()
    autofill_and_serialise_stream(f, Stream(sequences=[Sequence(data_units=[
        DataUnit(parse_info=ParseInfo(parse_code=ParseCodes.sequence_header), sequence_header=header),
        DataUnit(parse_info=ParseInfo(parse_code=ParseCodes.end_of_sequence))])]))
    mod = importlib.import_module("vc2_conformance.decoder.stream")
    orig = mod.sequence_header
    got = {}

    def wrapped(state):
        vp = orig(state)
        got["vp"] = copy.deepcopy(vp)
        got["pcm"] = state["picture_coding_mode"]
        return vp

    mod.sequence_header = wrapped
    try:
        st = State(_output_picture_callback=lambda *a: None)
        decoder.init_io(st, BytesIO(f.getvalue()))
        try:
            decoder.parse_stream(st)
            verdict = "OK"
        except decoder.ConformanceError as e:
            verdict = "%s: %s" % (type(e).__name__, str(e).split("\n")[0][:150])
            if type(e).__name__ == "LevelInvalidSequence" and "vp" in got:
                # the level's data-unit ORDERING pattern wants pictures in the carrier sequence; the header itself
                # had been validated completely (sequence_header returned) before that was noticed
                verdict = "OK"
    finally:
        mod.sequence_header = orig
    return verdict, got


def violates(cf, max_headers=12):
    from vc2_conformance.encoder.sequence_header import iter_sequence_headers
    from vc2_conformance.encoder.exceptions import IncompatibleLevelAndVideoFormatError

    n = 0
    try:
        for header in iter_sequence_headers(cf):
            n += 1
            verdict, got = decode_header(cf, header)
            if verdict != "OK":
                return "header %d rejected: %s" % (n, verdict), n
            if got.get("vp") != cf["video_parameters"]:
                diff = [k for k in cf["video_parameters"] if got["vp"].get(k) != cf["video_parameters"][k]]
                return "header %d decodes to different video parameters: %s" % (n, dict((k, (got["vp"].get(k), cf["video_parameters"][k])) for k in diff)), n
            if got.get("pcm") != cf["picture_coding_mode"]:
                return "header %d decodes to picture coding mode %s" % (n, got.get("pcm")), n
            if n >= max_headers:
                break
    except IncompatibleLevelAndVideoFormatError:
        return None, 0
    return None, n


def describe(cf):
    return {"level": int(cf["level"]), "pcm": int(cf["picture_coding_mode"]),
            "video_parameters": dict((k, (int(v) if not isinstance(v, bool) else v)) for k, v in cf["video_parameters"].items())}


def group_lines(rng, n):
    """iter_custom_options_dicts with synthetic tables vs the model"""
    from vc2_conformance.encoder.sequence_header import iter_custom_options_dicts, zip_longest_repeating_final_value
    from vc2_conformance.constraint_table import ValueSet, AnyValue

    lines, exp = [], []
    for _ in range(n):
        k = rng.choice([1, 2, 4])
        params = ["p%d" % i for i in range(k)]
        dom = [0, 1, 2, 5]
        base = [rng.choice(dom) for _ in params]
        target = base[:] if rng.random() < 0.4 else [rng.choice(dom) for _ in params]
        presets = None
        if rng.random() < 0.6:
            presets = {}
            for i in rng.sample([1, 2, 3, 4, 7], rng.randrange(1, 4)):
                presets[i] = tuple(target) if rng.random() < 0.4 else tuple(rng.choice(dom) for _ in params)
        flags = rng.choice([(1, 1), (1, 1), (0, 1), (1, 0)])
        idx = None if rng.random() < 0.5 else sorted(set(rng.choice([0, 1, 2, 3, 4, 7]) for _ in range(rng.randrange(1, 5))))
        vals = [None if rng.random() < 0.6 else sorted(set(rng.choice(dom) for _ in range(rng.randrange(1, 4)))) for _ in params]
        lc = {"flag": ValueSet(*[b for b, f in ((False, flags[0]), (True, flags[1])) if f])}
        lc["idx"] = AnyValue() if idx is None else ValueSet(*idx)
        for p, v in zip(params, vals):
            lc[p] = AnyValue() if v is None else ValueSet(*v)
        got = []
        for o in iter_custom_options_dicts(dict(zip(params, base)), dict(zip(params, target)), lc, dict, "flag", params,
                                           presets, "idx" if presets is not None else None):
            if not o["flag"]:
                got.append("off")
            elif presets is not None and o.get("index", 0) != 0:
                got.append("p%d" % o["index"])
            else:
                got.append("c" + ",".join(str(o[p]) for p in params))
        lines.append("so G %s %s %s %d %d %s %s" % (
            ",".join(map(str, base)), ",".join(map(str, target)),
            "-" if presets is None else ";".join("%d=%s" % (i, ",".join(map(str, v))) for i, v in presets.items()),
            flags[0], flags[1], "*" if idx is None else ",".join(map(str, idx)),
            "/".join("*" if v is None else ",".join(map(str, v)) for v in vals)))
        exp.append(" ".join(got) or "-")
    for _ in range(n // 3):
        ls = [[rng.choice("abcdef") + str(i) for i in range(rng.randrange(0, 4))] for _ in range(rng.randrange(1, 5))]
        rows = list(zip_longest_repeating_final_value(*ls))
        lines.append("so Z " + " / ".join(",".join(l) or "-" for l in ls))
        exp.append(" | ".join(" ".join(str(x) for x in r) for r in rows) or "-")
    return lines, exp


def color_spec_lines(rng, n):
    """iter_color_spec_options of the REAL encoder (real preset table) under random level columns vs the model"""
    from vc2_conformance.encoder.sequence_header import iter_color_spec_options
    from vc2_conformance.constraint_table import ValueSet, AnyValue
    from vc2_conformance.pseudocode.video_parameters import VideoParameters
    from vc2_data_tables import PRESET_COLOR_SPECS

    presets = ";".join("%d=%d,%d,%d" % (int(i), int(v[0]), int(v[1]), int(v[2])) for i, v in PRESET_COLOR_SPECS.items())
    keys = ["color_primaries_index", "color_matrix_index", "transfer_function_index"]
    lines, exp = [], []
    triples = [tuple(int(x) for x in v) for v in PRESET_COLOR_SPECS.values()]
    for _ in range(n):
        def triple():
            if rng.random() < 0.6:
                t = list(rng.choice(triples))
                if rng.random() < 0.4:
                    t[rng.randrange(3)] = rng.randrange(0, 5)
                return t
            return [rng.randrange(0, 4), rng.randrange(0, 4), rng.randrange(0, 4)]
        base, target = triple(), (triple() if rng.random() < 0.75 else None)
        if target is None:
            target = list(base)
        flags = rng.choice([(1, 1), (1, 1), (0, 1), (1, 0)])
        idx = None if rng.random() < 0.5 else sorted(set(rng.randrange(0, 8) for _ in range(rng.randrange(1, 5))))
        subs = []
        lc = {"custom_color_spec_flag": ValueSet(*[b for b, f in ((False, flags[0]), (True, flags[1])) if f]),
              "color_spec_index": AnyValue() if idx is None else ValueSet(*idx)}
        for fk, ik in (("custom_color_primaries_flag", "color_primaries_index"), ("custom_color_matrix_flag", "color_matrix_index"),
                       ("custom_transfer_function_flag", "transfer_function_index")):
            fl = rng.choice([(1, 1), (1, 1), (0, 1), (1, 0)])
            vals = None if rng.random() < 0.6 else sorted(set(rng.randrange(0, 5) for _ in range(rng.randrange(1, 4))))
            lc[fk] = ValueSet(*[b for b, f in ((False, fl[0]), (True, fl[1])) if f])
            lc[ik] = AnyValue() if vals is None else ValueSet(*vals)
            subs.append("%d%d:%s" % (fl[0], fl[1], "*" if vals is None else ",".join(map(str, vals))))
        got = []
        for o in iter_color_spec_options(VideoParameters(zip(keys, base)), VideoParameters(zip(keys, target)), lc):
            if not o["custom_color_spec_flag"]:
                got.append("off")
            elif o["index"] != 0:
                got.append("p%d" % o["index"])
            else:
                parts = []
                for part, fk in (("color_primaries", "custom_color_primaries_flag"), ("color_matrix", "custom_color_matrix_flag"),
                                 ("transfer_function", "custom_transfer_function_flag")):
                    parts.append("c%d" % o[part]["index"] if o[part][fk] else "off")
                got.append("c" + "/".join(parts))
        lines.append("so C %s %s %s %d %d %s %s" % (",".join(map(str, base)), ",".join(map(str, target)), presets, flags[0], flags[1],
                                                  "*" if idx is None else ",".join(map(str, idx)), " ".join(subs)))
        exp.append(" ".join(got) or "-")
    return lines, exp


def source_parameter_lines(rng, n):
    """the REAL iter_source_parameter_options (all eight groups, real preset tables) on random base formats, targets and
    level columns, against the composed model: each row is one encoding per group"""
    import functools
    import vc2_conformance.encoder.sequence_header as SH
    from vc2_conformance.constraint_table import ValueSet, AnyValue
    from vc2_conformance.pseudocode.video_parameters import set_source_defaults
    from vc2_data_tables import BaseVideoFormats, PRESET_COLOR_SPECS

    simple = [SH.iter_frame_size_options, SH.iter_color_diff_sampling_format_options, SH.iter_scan_format_options, SH.iter_frame_rate_options,
              SH.iter_pixel_aspect_ratio_options, SH.iter_clean_area_options, SH.iter_signal_range_options]
    specs = []
    for fn in simple:   # read each group's definition off the real partial
        assert isinstance(fn, functools.partial)
        kw = fn.keywords
        params = [(k, k) if isinstance(k, str) else k for k in kw["parameters"]]
        specs.append((kw["flag_key"], params, kw.get("presets"), kw.get("preset_index_constraint_key")))
    cs_presets = ";".join("%d=%d,%d,%d" % (int(i), int(v[0]), int(v[1]), int(v[2])) for i, v in PRESET_COLOR_SPECS.items())
    cs_keys = ["color_primaries_index", "color_matrix_index", "transfer_function_index"]
    bases = list(BaseVideoFormats)
    lines, exp = [], []
    for _ in range(n):
        base_vp = set_source_defaults(rng.choice(bases))
        target = set_source_defaults(rng.choice(bases)) if rng.random() < 0.5 else copy.deepcopy(base_vp)
        if rng.random() < 0.8:
            target["top_field_first"] = base_vp["top_field_first"]
        for k in list(target):    # perturb a few values
            if k != "top_field_first" and rng.random() < 0.12:
                if not isinstance(target[k], bool):
                    try:
                        target[k] = type(target[k])(int(target[k]) ^ 1)
                    except ValueError:   # (no such enum member)
                        pass
        lc = {}

        def flagset():
            f = rng.choice([(1, 1), (1, 1), (1, 1), (1, 1), (1, 1), (0, 1), (1, 0)])
            return f, ValueSet(*[b for b, x in ((False, f[0]), (True, f[1])) if x])

        def valset(v):
            c = rng.random()
            if c < 0.88:
                return None, AnyValue()
            vals = sorted(set([int(v)] if c < 0.97 else []) | set(rng.randrange(0, 6) for _ in range(rng.randrange(0, 3))))
            return vals, ValueSet(*vals)

        words = ["so", "S", str(int(bool(base_vp["top_field_first"]))), str(int(bool(target["top_field_first"])))]
        for flag_key, params, presets, idx_key in specs:
            f, lc[flag_key] = flagset()
            idx = None
            if presets is not None:
                idx, lc[idx_key] = valset(rng.choice([0] + [int(i) for i in presets]))
            vals = []
            for vp_key, _ in params:
                v, lc[vp_key] = valset(target[vp_key])
                vals.append(v)
            words += ["|", "G", ",".join(str(int(base_vp[k])) for k, _ in params), ",".join(str(int(target[k])) for k, _ in params),
                      "-" if presets is None else ";".join("%d=%s" % (int(i), ",".join(str(int(x)) for x in v)) for i, v in presets.items()),
                      str(f[0]), str(f[1]), "*" if idx is None else (",".join(map(str, idx)) or "99"),
                      "/".join("*" if v is None else (",".join(map(str, v)) or "99") for v in vals)]
        f, lc["custom_color_spec_flag"] = flagset()
        idx, lc["color_spec_index"] = valset(rng.randrange(0, 5))
        subs = []
        for fk, ik in (("custom_color_primaries_flag", "color_primaries_index"), ("custom_color_matrix_flag", "color_matrix_index"),
                       ("custom_transfer_function_flag", "transfer_function_index")):
            fl, lc[fk] = flagset()
            v, lc[ik] = valset(target[ik])
            subs.append("%d%d:%s" % (fl[0], fl[1], "*" if v is None else (",".join(map(str, v)) or "99")))
        words += ["|", "C", ",".join(str(int(base_vp[k])) for k in cs_keys), ",".join(str(int(target[k])) for k in cs_keys), cs_presets,
                  str(f[0]), str(f[1]), "*" if idx is None else (",".join(map(str, idx)) or "99")] + subs
        rows = []
        for sp in SH.iter_source_parameter_options(base_vp, target, lc):
            enc = []
            for (flag_key, params, presets, idx_key), part in zip(specs, ["frame_size", "color_diff_sampling_format", "scan_format", "frame_rate",
                                                                         "pixel_aspect_ratio", "clean_area", "signal_range"]):
                o = sp[part]
                if not o[flag_key]:
                    enc.append("off")
                elif presets is not None and o.get("index", 0) != 0:
                    enc.append("p%d" % int(o["index"]))
                else:
                    enc.append("c" + ",".join(str(int(o[dk])) for _, dk in params))
            o = sp["color_spec"]
            if not o["custom_color_spec_flag"]:
                enc.append("off")
            elif o["index"] != 0:
                enc.append("p%d" % int(o["index"]))
            else:
                enc.append("c" + "/".join(("c%d" % int(o[part]["index"])) if o[part][fk] else "off" for part, fk in (
                    ("color_primaries", "custom_color_primaries_flag"), ("color_matrix", "custom_color_matrix_flag"),
                    ("transfer_function", "custom_transfer_function_flag"))))
            rows.append(" ".join(enc))
        lines.append(" ".join(words))
        exp.append(" | ".join(rows) or "-")
    return lines, exp


class Prop(object):
    id = "C15"
    lean_modules = ["VC2.Props.C15"]
    status = "partial"
    rule = ("video formats near every base video format (perturbed frame size, subsampling, scan format, preset and custom frame rates and aspect ratios, clean areas, preset and custom "
            "signal ranges, colour specification presets and individual primaries / matrix / transfer function changes), both coding modes, the unconstrained level and the real levels "
            "that admit the format: every header of the REAL iter_sequence_headers (up to 12 per format) is serialised and decoded by the REAL validator; verdict, decoded video "
            "parameters and coding mode compared with the configuration; plus iter_custom_options_dicts and zip_longest_repeating_final_value on synthetic tables vs the model")
    trusted = ["model SeqHeader.lean tied by the so correspondence (synthetic presets, level value sets built from the real ValueSet/AnyValue classes)",
               "composition of the eight groups: iterSourceParameters tied by so S on the real iter_source_parameter_options; the loops of iter_sequence_headers "
               "over base formats and level columns and the base-format ranking are covered end to end only"]
    assumptions = ["formats for which the encoder raises IncompatibleLevelAndVideoFormatError are outside the property"]

    def correspond(self, ctx):
        rng = ctx.rng("so")
        self._bad = None
        lines, exp = group_lines(rng, ctx.n(600, 8000))
        ctx.diff("so iter_custom_options_dicts / zip_longest_repeating_final_value on synthetic tables: model == real", lines, exp)
        lines, exp = source_parameter_lines(rng, ctx.n(400, 5000))
        ctx.diff("so S the REAL iter_source_parameter_options (all eight groups read off the real partials, real preset tables, random base formats / "
                 "targets / level columns): rows of one encoding per group, model iterSourceParameters == real", lines, exp)
        lines, exp = color_spec_lines(rng, ctx.n(800, 10000))
        ctx.diff("so iter_color_spec_options (real preset table, random level columns, nested primaries/matrix/transfer function): model == real", lines, exp)
        ctx.corr_names.append("REAL iter_sequence_headers -> serialise -> REAL validator: accepted, decodes to the configured format")
        directed = level_formats()
        ctx.count("directed-level-formats", len(directed))
        for cf in directed + [rand_format(rng) for _ in range(ctx.n(350, 8000))]:
            try:
                why, n = violates(cf)
            except Exception as e:  # noqa
                why, n = "exception %s: %s" % (type(e).__name__, str(e)[:200]), 0
            ctx.evaluations += max(1, n)
            ctx.count("headers:%d" % min(n, 6))
            ctx.count("level:%d" % int(cf["level"]))
            if n:
                ctx.distinct.add(hash(json.dumps(describe(cf), sort_keys=True)))
            if why and not self._bad:
                self._bad = {"format": describe(cf), "why": why}

    def findings(self, ctx):
        return [self._bad] if self._bad else []

    def search(self, ctx):
        rng = ctx.rng("search")
        for cf in level_formats() + [rand_format(rng) for _ in range(ctx.n(1500, 20000))]:
            try:
                why, n = violates(cf)
            except Exception as e:  # noqa
                why = "exception %s: %s" % (type(e).__name__, str(e)[:200])
            if why:
                return {"format": describe(cf), "why": why}
        return None

    def replay(self, ctx, path):
        from sample_codec_features import MINIMAL_CODEC_FEATURES as CF
        from vc2_conformance.codec_features import CodecFeatures
        from vc2_conformance.pseudocode.video_parameters import VideoParameters
        from vc2_data_tables import Levels, PictureCodingModes

        with open(path) as f:
            r = json.load(f)
        fi = r.get("failing_input")
        if not fi:
            print("replay names broken obligations only:", r.get("broken_obligations"))
            return 1
        base = copy.deepcopy(CF["video_parameters"])
        vp = VideoParameters((k, type(base[k])(v)) for k, v in fi["format"]["video_parameters"].items())
        cf = CodecFeatures(CF, name="fmt", level=Levels(fi["format"]["level"]), video_parameters=vp,
                           picture_coding_mode=PictureCodingModes(fi["format"]["pcm"]))
        why, n = violates(cf)
        print("replay ->", why or "property holds")
        return 1 if why else 0


PROP = Prop()
