"""C17 — constraint-table queries follow set semantics."""
import os
import tempfile


def show_vs(vs):
    from vc2_conformance.constraint_table import AnyValue

    if isinstance(vs, AnyValue):
        return "ANY"
    return "{%s;%s}" % (",".join(str(int(v)) for v in sorted(vs._values)),
                        ",".join("(%d,%d)" % (int(a), int(b)) for a, b in sorted(vs._ranges)))


def run_vs(ops):
    from vc2_conformance.constraint_table import ValueSet, AnyValue

    regs, out = [], []
    for op in ops:
        c, a = op[0], op[1:]
        if c == "N":
            regs.append(ValueSet())
        elif c == "A":
            regs.append(AnyValue())
        elif c == "V":
            i, v = map(int, a.split(","))
            regs[i].add_value(v)
        elif c == "R":
            i, lo, hi = map(int, a.split(","))
            regs[i].add_range(lo, hi)
        elif c == "U":
            i, j = map(int, a.split(","))
            regs.append(regs[i] + regs[j])
        elif c == "H":
            i, v = map(int, a.split(","))
            out.append("T" if v in regs[i] else "F")
        elif c == "D":
            i, j = map(int, a.split(","))
            out.append("T" if regs[i].is_disjoint(regs[j]) else "F")
        elif c == "L":
            out.append(show_vs(regs[int(a)]))
    return " ".join(out)


def gen_vs_prog(rng, wf=True):
    n = 0
    ops = []
    any_regs = set()
    for _ in range(rng.randrange(3, 14)):
        c = rng.random()
        if n == 0 or c < 0.15:
            ops.append("N")
            n += 1
        elif c < 0.2:
            ops.append("A")
            any_regs.add(n)
            n += 1
        elif c < 0.45:
            ops.append("V%d,%d" % (rng.randrange(n), rng.randrange(-2, 16)))
        elif c < 0.7:
            lo = rng.randrange(-2, 16)
            hi = lo + rng.randrange(0, 5) if (wf or rng.random() < 0.7) else lo - rng.randrange(1, 4)
            ops.append("R%d,%d,%d" % (rng.randrange(n), lo, hi))
        elif c < 0.8:
            i, j = rng.randrange(n), rng.randrange(n)
            ops.append("U%d,%d" % (i, j))
            if i in any_regs or j in any_regs:
                any_regs.add(n)
            n += 1
        elif c < 0.9 or not wf:
            ops.append("H%d,%d" % (rng.randrange(n), rng.randrange(-3, 18)))
        else:
            ops.append("D%d,%d" % (rng.randrange(n), rng.randrange(n)))
    for i in range(n):
        # with reversed (empty) ranges the stored representation and the disjointness answer depend on the
        # iteration order of a Python set, which the model does not (and need not) reproduce: only
        # membership is compared there (it is what `membership_after_ops` states without a WF hypothesis)
        if wf:
            ops.append("L%d" % i)
        for v in ([rng.randrange(-3, 18)] if wf else range(-3, 18)):
            ops.append("H%d,%d" % (i, v))
    return ops


KEYS = ["a", "b", "c", "d"]


def gen_cell(rng, first):
    c = rng.random()
    if c < 0.12:
        return "any"
    if c < 0.24 and not first:
        return "DITTO"
    if c < 0.32:
        return "-"
    items = []
    for _ in range(rng.randrange(1, 4)):
        if rng.random() < 0.6:
            items.append(str(rng.randrange(0, 8)))
        else:
            lo = rng.randrange(0, 8)
            items.append("%d~%d" % (lo, lo + rng.randrange(0, 4)))
    return ",".join(items)


def gen_table(rng, catch_all=False):
    ncols = rng.randrange(1, 5)
    keys = rng.sample(KEYS, rng.randrange(1, 5))
    rows = []
    for k in keys:
        cells = [gen_cell(rng, i == 0) for i in range(rng.choice([ncols, ncols, max(1, ncols - 1)]))]
        rows.append("%s:%s" % (k, "|".join(cells)))
    return rows


def gen_direct_table(rng):
    """a table written out column by column, in which ANY column may lack ANY key (the CSV reader can only leave a key out
    of the LAST columns); a column with no key at all is the documented catch-all"""
    keys = rng.sample(KEYS, rng.randrange(2, 5))
    toks = []
    for _ in range(rng.randrange(1, 5)):
        toks.append("COL")
        for k in keys:
            if rng.random() < 0.3:
                continue
            toks.append("%s:%s" % (k, gen_cell(rng, True)))
    return toks


def real_direct_table(toks):
    from vc2_conformance.constraint_table import ValueSet, AnyValue

    t = []
    for tok in toks:
        if tok == "COL":
            t.append({})
            continue
        k, cell = tok.split(":")
        if cell == "any":
            t[-1][k] = AnyValue()
            continue
        vs = ValueSet()
        for it in ([] if cell == "-" else cell.split(",")):
            if "~" in it:
                lo, hi = it.split("~")
                vs.add_range(int(lo), int(hi))
            else:
                vs.add_value(int(it))
        t[-1][k] = vs
    return t


def csv_text(rows, rng):
    """Render tokenised rows as the CSV syntax the real reader parses."""
    lines = []
    for row in rows:
        if rng.random() < 0.15:
            lines.append(rng.choice(["", "# comment,,", ",,,"]))
        k, cells = row.split(":")
        out = [k]
        for c in cells.split("|"):
            if c == "any":
                out.append(rng.choice(["any", "ANY", " Any "]))
            elif c == "DITTO":
                out.append('""""')
            elif c == "-":
                out.append("")
            else:
                txt = ",".join(
                    (it.replace("~", "-") if "~" in it else
                     (rng.choice([it, " " + it + " ", "TRUE" if it == "1" else it, "false" if it == "0" else it])))
                    for it in c.split(","))
                out.append('"%s"' % txt if "," in txt else txt)
        lines.append(",".join(out))
    return "\n".join(lines) + "\n"


def real_table(rows, rng):
    from vc2_conformance.constraint_table import read_constraints_from_csv

    fd, path = tempfile.mkstemp(suffix=".csv")
    try:
        with os.fdopen(fd, "w") as f:
            f.write(csv_text(rows, rng))
        return read_constraints_from_csv(path)
    finally:
        os.unlink(path)


def show_table(t):
    return ";".join(",".join("%s=%s" % (k, show_vs(c[k])) for k in sorted(c)) for c in t)


def run_ct(table, q):
    from vc2_conformance.constraint_table import is_allowed_combination, allowed_values_for
    from collections import OrderedDict

    if q[0] == "SHOW":
        return show_table(table)
    if q[0] == "ALLOWED":
        return "T" if is_allowed_combination(table, OrderedDict((k, int(v)) for k, v in (x.split("=") for x in q[1:]))) else "F"
    if q[0] == "VALUES":
        return show_vs(allowed_values_for(table, q[1], OrderedDict((k, int(v)) for k, v in (x.split("=") for x in q[2:]))))
    if q[0] == "SEQ":
        # the validator's incremental check, on the real assert_level_constraint
        from vc2_conformance.decoder import assertions
        from vc2_conformance.decoder.exceptions import ValueNotAllowedInLevel
        from vc2_conformance.pseudocode.state import State

        old = assertions.LEVEL_CONSTRAINTS
        assertions.LEVEL_CONSTRAINTS = table
        try:
            st = State()
            try:
                for x in q[1:]:
                    k, v = x.split("=")
                    assertions.assert_level_constraint(st, k, int(v))
            except ValueNotAllowedInLevel:
                return "FAIL"
            return "OK " + " ".join("%s=%d" % (k, v) for k, v in st.get("_level_constrained_values", {}).items())
        finally:
            assertions.LEVEL_CONSTRAINTS = old


def gen_query(rng, rows):
    keys = [r.split(":")[0] for r in rows]
    c = rng.random()
    ks = rng.sample(KEYS, rng.randrange(0, 4))
    kvs = ["%s=%d" % (k, rng.randrange(0, 9)) for k in ks]
    if c < 0.15:
        return ["SHOW"]
    if c < 0.4:
        return ["ALLOWED"] + kvs
    if c < 0.7:
        key = rng.choice(KEYS)
        return ["VALUES", key] + [x for x in kvs if not x.startswith(key + "=")]
    return ["SEQ"] + kvs


def violates_vs(rng):
    """Real ValueSet vs Python-set reference on one random op sequence."""
    from vc2_conformance.constraint_table import ValueSet, AnyValue

    U = set(range(-4, 24))   # the universe of the reference: the wildcard set contains all of it
    sets, refs, log = [], [], []
    for _ in range(rng.randrange(2, 12)):
        c = rng.random()
        if not sets or c < 0.2:
            sets.append(ValueSet())
            refs.append(set())
            log.append("N")
        elif c < 0.27:
            sets.append(AnyValue())
            refs.append(None)      # None = everything
            log.append("A")
        elif c < 0.5:
            i, v = rng.randrange(len(sets)), rng.randrange(-2, 16)
            if refs[i] is None:
                continue
            sets[i].add_value(v)
            refs[i].add(v)
            log.append("V%d,%d" % (i, v))
        elif c < 0.8:
            i, lo = rng.randrange(len(sets)), rng.randrange(-2, 16)
            if refs[i] is None:
                continue
            hi = lo + rng.randrange(0, 5)
            sets[i].add_range(lo, hi)
            refs[i] |= set(range(lo, hi + 1))
            log.append("R%d,%d,%d" % (i, lo, hi))
        else:
            i, j = rng.randrange(len(sets)), rng.randrange(len(sets))
            if refs[i] is None and refs[j] is not None:
                continue          # (AnyValue + ValueSet is not offered by the real class in this order)
            sets.append(sets[i] + sets[j])
            refs.append(None if (refs[i] is None or refs[j] is None) else refs[i] | refs[j])
            log.append("U%d,%d" % (i, j))
        for k, (s, r) in enumerate(zip(sets, refs)):
            got = set(v for v in range(-4, 24) if v in s)
            if got != (U if r is None else r):
                return {"ops": log, "why": "set %d contains %s, expected %s" % (k, sorted(got), "everything" if r is None else sorted(r))}
            if r is not None and set(s.iter_values()) != r:
                return {"ops": log, "why": "iter_values of set %d = %s, expected %s" % (k, sorted(s.iter_values()), sorted(r))}
        for i in range(len(sets)):
            for j in range(len(sets)):
                ri = U if refs[i] is None else refs[i]
                rj = U if refs[j] is None else refs[j]
                if sets[i].is_disjoint(sets[j]) != (not (ri & rj)):
                    return {"ops": log, "why": "is_disjoint(%d,%d)=%s" % (i, j, sets[i].is_disjoint(sets[j]))}
    return None


def violates_direct_table(rng):
    """tables built directly (not through the CSV reader) in which ANY column may lack ANY key: the two table queries must
    agree with each other and with the definition - a value is allowed for a key iff some column that admits all the
    given values (a column without a key admits nothing for it) admits that value too"""
    from vc2_conformance.constraint_table import allowed_values_for, is_allowed_combination, ValueSet, AnyValue

    ncols = rng.randrange(1, 5)
    keys = rng.sample(KEYS, rng.randrange(2, 5))
    cols, refs = [], []
    for _ in range(ncols):
        col, ref = {}, {}
        for k in keys:
            c = rng.random()
            if c < 0.3:
                continue                      # the column does not mention the key
            if c < 0.4:
                col[k], ref[k] = AnyValue(), None
            else:
                vals = set(rng.randrange(0, 6) for _ in range(rng.randrange(0, 4)))
                col[k], ref[k] = ValueSet(*vals), vals
        if not col:
            # (a column that mentions no key at all is the documented 'catch all' rule, on which the two queries differ by
            #  design: excluded, as in the theorems' hypothesis)
            k = rng.choice(keys)
            col[k], ref[k] = ValueSet(1), {1}
        cols.append(col)
        refs.append(ref)
    given = dict((k, rng.randrange(0, 6)) for k in rng.sample(keys, rng.randrange(0, len(keys))))
    key = rng.choice([k for k in keys if k not in given] or keys)
    given.pop(key, None)

    def admits(ref, k, v):
        return k in ref and (ref[k] is None or v in ref[k])
    av = allowed_values_for(cols, key, given)
    for v in range(-1, 8):
        want = any(all(admits(ref, k, x) for k, x in given.items()) and admits(ref, key, v) for ref in refs)
        got_av = v in av
        got_comb = is_allowed_combination(cols, dict(given, **{key: v}))
        if got_av != want or got_comb != want:
            return {"columns": [dict((k, ("any" if r is None else sorted(r))) for k, r in ref.items()) for ref in refs], "given": given, "key": key, "v": v,
                    "why": "value %d for %s: allowed_values_for says %s, is_allowed_combination says %s, the table says %s" % (v, key, got_av, got_comb, want)}
    return None


def violates_table(rng):
    from vc2_conformance.constraint_table import allowed_values_for, is_allowed_combination

    rows = gen_table(rng)
    rows = [r for r in rows]
    t = real_table(rows, rng)
    # the cells, read independently of the reader under test: a value, a range, `any`, an EMPTY cell (no value at all) and
    # the ditto mark, which repeats the cell to its left whatever that was (an empty cell included)
    for row in rows:
        k, cells = row.split(":")
        prev = set()
        for i, c in enumerate(cells.split("|")):
            if c == "any":
                want = None
            elif c == "DITTO":
                want = prev
            elif c == "-":
                want = set()
            else:
                want = set()
                for it in c.split(","):
                    if "~" in it:
                        lo, hi = it.split("~")
                        want |= set(range(int(lo), int(hi) + 1))
                    else:
                        want.add(int(it))
            prev = want
            got = t[i].get(k)
            if got is None:
                return {"rows": rows, "why": "column %d has no entry for %s" % (i, k)}
            for v in range(-1, 13):
                if (v in got) != (want is None or v in want):
                    return {"rows": rows, "why": "cell %s of column %d (%r) %s %d, the table text says otherwise" % (
                        k, i, c, "admits" if v in got else "refuses", v)}
    if any(len(c) == 0 for c in t):
        return None
    vals = {}
    for k in rng.sample(KEYS, rng.randrange(0, 3)):
        vals[k] = rng.randrange(0, 9)
    key = rng.choice([k for k in KEYS if k not in vals])
    av = allowed_values_for(t, key, vals)
    for v in range(-1, 13):
        d = dict(vals)
        d[key] = v
        if (v in av) != is_allowed_combination(t, d):
            return {"rows": rows, "values": vals, "key": key, "v": v,
                    "why": "v in allowed_values_for = %s but is_allowed_combination = %s" % (v in av, is_allowed_combination(t, d))}
    return None


class Prop(object):
    id = "C17"
    lean_modules = ["VC2.Props.C17"]
    status = "full"
    rule = ("random register-machine programs over ValueSet/AnyValue (add_value, add_range incl. malformed ranges, union, contains, "
            "is_disjoint, listing of _values/_ranges) and random CSV tables (any, ditto, empty, TRUE/FALSE, ranges, comment rows) with "
            "ALLOWED / VALUES / incremental SEQ queries (the latter through the real assert_level_constraint), the same queries on tables built directly in which any column may lack any key; distinct = distinct op lines")
    trusted = ["hand-written model lean/VC2/Model/Constraint.lean tied to the code by this correspondence",
               "csv.reader, str.partition/int (CSV tokenisation is not modelled; the harness renders tokenised cells to CSV text)"]
    assumptions = ["values are integers (bools as 0/1); Python set iteration order = any list order (theorems hold for all orders)",
                   "is_disjoint is exact only for well-formed ranges lo <= hi (theorem hypothesis; see DESIGN §6 C17)"]

    def correspond(self, ctx):
        rng = ctx.rng("vs")
        lines, exp = [], []
        for i in range(ctx.n(4000, 60000)):
            prog = gen_vs_prog(rng, wf=(i % 4 != 0))
            lines.append("vs " + " ".join(prog))
            exp.append(run_vs(prog))
        ctx.diff("vs value-set programs model == real ValueSet/AnyValue", lines, exp)
        lines, exp = [], []
        for i in range(ctx.n(2500, 40000)):
            rows = gen_table(rng)
            t = real_table(rows, rng)
            q = gen_query(rng, rows)
            lines.append("ct %s | %s" % (" ".join(rows), " ".join(q)))
            exp.append(run_ct(t, q))
            ctx.count("ct:" + q[0])
        ctx.diff("ct CSV table + queries model == read_constraints_from_csv/allowed_values_for/assert_level_constraint", lines, exp)
        lines, exp = [], []
        for i in range(ctx.n(2500, 40000)):
            toks = gen_direct_table(rng)
            q = gen_query(rng, [])
            lines.append("dt %s | %s" % (" ".join(toks), " ".join(q)))
            exp.append(run_ct(real_direct_table(toks), q))
            ctx.count("dt:" + q[0])
        ctx.diff("dt directly built tables (any column may lack any key) + queries model == allowed_values_for/is_allowed_combination/assert_level_constraint", lines, exp)

    def search(self, ctx):
        rng = ctx.rng("search")
        for _ in range(ctx.n(6000, 60000)):
            r = violates_vs(rng)
            if r:
                return dict(r, kind="valueset")
        for _ in range(ctx.n(3000, 30000)):
            r = violates_table(rng)
            if r:
                return dict(r, kind="table")
        for _ in range(ctx.n(4000, 30000)):
            r = violates_direct_table(rng)
            if r:
                return dict(r, kind="direct-table")
        return None

    def replay(self, ctx, path):
        import json

        with open(path) as f:
            r = json.load(f)
        fi = r.get("failing_input")
        if not fi:
            print("replay names broken obligations only:", r.get("broken_obligations"))
            return 1
        print("failing input recorded:", json.dumps(fi)[:600])
        if fi.get("kind") == "valueset":
            out = run_vs(fi["ops"] + ["L%d" % i for i in range(sum(1 for o in fi["ops"] if o[0] in "NU"))])
            print("real listing now:", out)
        return 1


PROP = Prop()
