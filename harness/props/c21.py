"""C21 — the serialiser/deserialiser framework round-trips arbitrary description programs."""
import copy
import json
from io import BytesIO

KINDS = ["bool", "nbits", "ulit", "barr", "bytes", "uint", "sint"]


class TypeA(dict):
    pass


class TypeB(dict):
    pass


TYPES = [TypeA, TypeB]
TYPE_KEY = "__type__"   # set_context_type(T) is modelled as a computed entry naming T


class Gen(object):
    def __init__(self, rng):
        self.rng = rng
        self.n = 0

    def name(self):
        self.n += 1
        return "t%d" % self.n

    def kind(self):
        k = self.rng.choice(KINDS)
        if k == "nbits":
            return ("nbits", self.rng.choice([0, 1, 3, 8, 13]))
        if k == "ulit":
            return ("ulit", self.rng.choice([1, 2]))
        if k == "barr":
            return ("barr", self.rng.choice([0, 1, 5, 9]))
        if k == "bytes":
            return ("bytes", self.rng.choice([0, 1, 2]))
        return (k,)

    def value(self, kind):
        r = self.rng
        k = kind[0]
        if getattr(self, "ones", False) and r.random() < 0.6:
            # values whose codes are (or end in) 1-bits: they may lie past the end of a bounded block
            if k == "bool":
                return ("b", True)
            if k == "nbits":
                return ("i", (1 << kind[1]) - 1)
            if k == "ulit":
                return ("i", (1 << (8 * kind[1])) - 1)
            if k in ("barr", "bytes"):
                return ("x", [True] * (kind[1] * (8 if k == "bytes" else 1)))
            if k == "uint":
                return ("i", r.choice([0, 0, 2, 6, 14]))
            return ("i", r.choice([0, 0, -2, -6, 2]))
        if k == "bool":
            return ("b", r.random() < 0.5)
        if k == "nbits":
            return ("i", r.randrange(0, 1 << kind[1]) if kind[1] else 0)
        if k == "ulit":
            return ("i", r.randrange(0, 1 << (8 * kind[1])))
        if k == "barr":
            return ("x", [r.random() < 0.5 for _ in range(kind[1])])
        if k == "bytes":
            return ("x", [r.random() < 0.5 for _ in range(8 * kind[1])])
        if k == "uint":
            return ("i", r.choice([0, 1, 2, 7, 8, 100, r.randrange(0, 5000)]))
        return ("i", r.choice([0, 1, -1, 2, -7, 100, -r.randrange(0, 5000)]))

    def body(self, depth, in_block=False, in_block_body=False):
        """-> (list of statements, dict of values) ; statement forms mirror the Lean `Stmt`"""
        stmts, ctx = [], {}
        if self.rng.random() < 0.35 and not in_block_body:
            stmts.append(("settype", TYPE_KEY, self.rng.randrange(len(TYPES))))
        for _ in range(self.rng.randrange(0, 5 if depth else 6)):
            c = self.rng.random()
            t = self.name()
            if c < 0.45 or depth >= 3:
                k = self.kind()
                stmts.append(("prim", t, k))
                ctx[t] = self.value(k)
            elif c < 0.58:
                ks = [self.kind() for _ in range(self.rng.randrange(0, 4))]
                stmts.append(("plist", t, ks))
                ctx[t] = ("l", [self.value(k) for k in ks])
            elif c < 0.72:
                b, cx = self.body(depth + 1, in_block)
                stmts.append(("sub", t, b))
                ctx[t] = ("d", cx)
            elif c < 0.84:
                bodies, vals = [], []
                for _ in range(self.rng.randrange(0, 4)):
                    b, cx = self.body(depth + 1, in_block)
                    bodies.append(b)
                    vals.append(("d", cx))
                stmts.append(("slist", t, bodies))
                ctx[t] = ("l", vals)
            elif c < 0.92 and not in_block:
                self.ones = self.rng.random() < 0.5
                b, cx = self.body(depth + 1, in_block=True, in_block_body=True)
                self.ones = False
                # no nested blocks / aligns / sub-structures with aligns inside: position arithmetic only
                stmts.append(("block", t, None, b))
                ctx.update(cx)
                ctx[t] = ("pad", None)
            elif c < 0.97 and not in_block:
                # (no byte_align inside a bounded block: not in the model, and not used by bitstream/vc2.py)
                stmts.append(("align", t))
                ctx[t] = ("al", None)
            else:
                stmts.append(("comp", t, self.rng.randrange(-5, 100)))
        return stmts, ctx


class BoolBits(list):
    pass


def to_py(v):
    """model value -> the Python value the real serdes uses"""
    from bitarray import bitarray

    tag, x = v
    if tag in ("i", "b"):
        return x
    if tag == "x":
        return bitarray(x)
    if tag == "d":
        return dict((k, to_py(w)) for k, w in x.items())
    if tag == "l":
        return [to_py(w) for w in x]
    raise ValueError(tag)


def run_prog(serdes, stmts, kinds_for_bytes=None):
    """interpret a program on a real SerDes object"""
    for s in stmts:
        op, t = s[0], s[1]
        if op == "prim":
            prim(serdes, t, s[2])
        elif op == "plist":
            serdes.declare_list(t)
            for k in s[2]:
                prim(serdes, t, k)
        elif op == "sub":
            with serdes.subcontext(t):
                run_prog(serdes, s[2])
        elif op == "slist":
            serdes.declare_list(t)
            for b in s[2]:
                with serdes.subcontext(t):
                    run_prog(serdes, b)
        elif op == "block":
            with serdes.bounded_block(t, s[2]):
                run_prog(serdes, s[3])
        elif op == "align":
            serdes.byte_align(t)
        elif op == "comp":
            serdes.computed_value(t, s[2])
        elif op == "settype":
            serdes.set_context_type(TYPES[s[2]])
        elif op == "settypen":
            serdes.set_context_type(dyn_type(t))


def prim(serdes, t, k):
    if k[0] == "bool":
        serdes.bool(t)
    elif k[0] == "nbits":
        serdes.nbits(t, k[1])
    elif k[0] == "ulit":
        serdes.uint_lit(t, k[1])
    elif k[0] == "barr":
        serdes.bitarray(t, k[1])
    elif k[0] == "bytes":
        serdes.bytes(t, k[1])
    elif k[0] == "uint":
        serdes.uint(t)
    else:
        serdes.sint(t)


def bits_of_bytes(b):
    return [bool((byte >> (7 - i)) & 1) for byte in b for i in range(8)]


def canon(v, bytes_targets=None):
    """real context value -> canonical string in the model's notation (entries sorted by key)"""
    from bitarray import bitarray

    if isinstance(v, bool):
        return "b %d" % v
    if isinstance(v, int):
        return "i %d" % v
    if isinstance(v, bitarray):
        return "x " + ("".join("1" if b else "0" for b in v) or "-")
    if isinstance(v, (bytes, bytearray)):
        return "x " + ("".join("1" if b else "0" for b in bits_of_bytes(v)) or "-")
    if isinstance(v, dict):
        items = dict((k, canon(w)) for k, w in v.items())
        if type(v) in TYPES:
            items[TYPE_KEY] = "i %d" % TYPES.index(type(v))
        return "{ " + "".join("%s %s " % (k, items[k]) for k in sorted(items)) + "}"
    if isinstance(v, list):
        return "[ " + "".join(canon(w) + " " for w in v) + "]"
    raise ValueError(repr(v))


def show_stmts(stmts):
    out = []
    for s in stmts:
        op, t = s[0], s[1]
        if op == "prim":
            out += ["prim", t, show_kind(s[2])]
        elif op == "plist":
            out += ["plist", t, "["] + [show_kind(k) for k in s[2]] + ["]"]
        elif op == "sub":
            out += ["sub", t, "{"] + show_stmts(s[2]) + ["}"]
        elif op == "slist":
            out += ["slist", t, "["]
            for b in s[2]:
                out += ["{"] + show_stmts(b) + ["}"]
            out += ["]"]
        elif op == "block":
            out += ["block", t, str(s[2]), "{"] + show_stmts(s[3]) + ["}"]
        elif op == "align":
            out += ["align", t]
        elif op in ("comp", "settype"):
            out += ["comp", t, str(s[2])]
    return out


def show_kind(k):
    return k[0] if len(k) == 1 else "%s:%d" % k


def show_val(v):
    tag, x = v
    if tag == "i":
        return ["i", str(x)]
    if tag == "b":
        return ["b", "1" if x else "0"]
    if tag == "x":
        return ["x", "".join("1" if b else "0" for b in x) or "-"]
    if tag == "d":
        return ["{"] + show_entries(x) + ["}"]
    if tag == "l":
        out = ["["]
        for w in x:
            out += show_val(w)
        return out + ["]"]
    raise ValueError(tag)


def show_entries(d):
    out = []
    for k, v in d.items():
        out += [k] + show_val(v)
    return out


def bytes_fix(stmts, ctx):
    """`bytes` targets hold Python bytes in the real context (tolerates corrupted descriptions)"""
    from bitarray import bitarray

    if not isinstance(ctx, dict):
        return
    for s in stmts:
        op, t = s[0], s[1]
        if op == "block":
            bytes_fix(s[3], ctx)
            continue
        if t not in ctx:
            continue
        if op == "prim" and s[2][0] == "bytes" and isinstance(ctx[t], bitarray):
            ctx[t] = bytes_from_bits(ctx[t])
        elif op == "plist" and isinstance(ctx[t], list):
            ctx[t] = [bytes_from_bits(v) if (k[0] == "bytes" and isinstance(v, bitarray)) else v for k, v in zip(s[2], ctx[t])] + ctx[t][len(s[2]):]
        elif op == "sub":
            bytes_fix(s[2], ctx[t])
        elif op == "slist" and isinstance(ctx[t], list):
            for b, c in zip(s[2], ctx[t]):
                bytes_fix(b, c)


def bytes_from_bits(ba):
    return ba.tobytes()


def sizes(stmts, ctx, pos):
    """fix block lengths, padding and alignment values so that the description is exactly serialisable;
    returns the bit position after the statements (mirrors what the writer will do)"""
    for i, s in enumerate(stmts):
        op, t = s[0], s[1]
        if op == "prim":
            pos += prim_len(s[2], ctx[t])
        elif op == "plist":
            for k, v in zip(s[2], ctx[t][1]):
                pos += prim_len(k, v)
        elif op == "sub":
            pos = sizes(s[2], ctx[t][1], pos)
        elif op == "slist":
            for b, c in zip(s[2], ctx[t][1]):
                pos = sizes(b, c[1], pos)
        elif op == "block":
            end = sizes(s[3], ctx, pos)
            rng = ctx["__rng"]
            body_bits = enc_body(s[3], ctx)
            ones = 0
            while ones < len(body_bits) and body_bits[len(body_bits) - 1 - ones]:
                ones += 1
            if ones and rng.random() < 0.5:
                # the block ends BEFORE its contents do: the last `cut` bits (all 1) lie past the end
                cut = rng.randrange(1, ones + 1)
                stmts[i] = ("block", t, len(body_bits) - cut, s[3])
                ctx[t] = ("x", [])
                pos = pos + len(body_bits) - cut
            else:
                pad = rng.randrange(0, 11)
                stmts[i] = ("block", t, end - pos + pad, s[3])
                ctx[t] = ("x", [rng.random() < 0.5 for _ in range(pad)])
                pos = end + pad
        elif op == "align":
            n = (8 - pos % 8) % 8
            ctx[t] = ("x", [ctx["__rng"].random() < 0.5 for _ in range(n)])
            pos += n
    return pos


def enc_prim(k, v):
    """the bits of one primitive value (for choosing where a block may end)"""
    x = v[1]
    if k[0] == "bool":
        return [bool(x)]
    if k[0] in ("nbits", "ulit"):
        n = k[1] * (8 if k[0] == "ulit" else 1)
        return [bool((x >> (n - 1 - i)) & 1) for i in range(n)]
    if k[0] in ("barr", "bytes"):
        return list(x)
    m = abs(x) + 1
    out = []
    for i in range(m.bit_length() - 2, -1, -1):
        out += [False, bool((m >> i) & 1)]
    out.append(True)
    if k[0] == "sint" and x != 0:
        out.append(x < 0)
    return out


def enc_body(stmts, ctx):
    out = []
    for s in stmts:
        op, t = s[0], s[1]
        if op == "prim":
            out += enc_prim(s[2], ctx[t])
        elif op == "plist":
            for k, v in zip(s[2], ctx[t][1]):
                out += enc_prim(k, v)
        elif op == "sub":
            out += enc_body(s[2], ctx[t][1])
        elif op == "slist":
            for b, c in zip(s[2], ctx[t][1]):
                out += enc_body(b, c[1])
    return out


def exp_len(v):
    return 2 * (v + 1).bit_length() - 1


def prim_len(k, v):
    if k[0] == "bool":
        return 1
    if k[0] in ("nbits", "barr"):
        return k[1]
    if k[0] in ("ulit", "bytes"):
        return 8 * k[1]
    if k[0] == "uint":
        return exp_len(v[1])
    return exp_len(abs(v[1])) + (1 if v[1] else 0)


def with_rng(ctx, rng):
    """thread the rng to `sizes` through every nested dict"""
    ctx["__rng"] = rng
    for v in ctx.values():
        if isinstance(v, tuple) and v[0] == "d":
            with_rng(v[1], rng)
        elif isinstance(v, tuple) and v[0] == "l":
            for w in v[1]:
                if w[0] == "d":
                    with_rng(w[1], rng)


def strip_rng(ctx):
    ctx.pop("__rng", None)
    for v in ctx.values():
        if isinstance(v, tuple) and v[0] == "d":
            strip_rng(v[1])
        elif isinstance(v, tuple) and v[0] == "l":
            for w in v[1]:
                if w[0] == "d":
                    strip_rng(w[1])


DYN = {}


def dyn_type(name):
    """one dict subclass per sub-description NAME (the model keys default tables by that name)"""
    if name == "":
        return dict
    if name not in DYN:
        DYN[name] = type("T_" + name, (dict,), {})
    return DYN[name]


def retype(stmts):
    """drop the random set_context_type statements and make every sub-description body begin by setting ITS type"""
    out = []
    for s in stmts:
        op = s[0]
        if op == "settype":
            continue
        if op == "sub":
            out.append(("sub", s[1], [("settypen", s[1])] + retype(s[2])))
        elif op == "slist":
            out.append(("slist", s[1], [[("settypen", s[1])] + retype(b) for b in s[2]]))
        elif op == "block":
            out.append(("block", s[1], s[2], retype(s[3])))
        else:
            out.append(s)
    return out


def positional(stmts):
    return any(s[0] in ("block", "align") or (s[0] == "sub" and positional(s[2])) or (s[0] == "slist" and any(positional(b) for b in s[2]))
               for s in stmts)


def omit(rng, g, stmts, ctx, name, table, same=False):
    """remove values from the description, recording a default for (context name, target): mostly the removed
    value itself (so that bounded-block lengths still fit), sometimes another value; also defaults for targets
    that ARE supplied (they must be ignored)"""
    for s in stmts:
        op, t = s[0], s[1]
        if op == "prim":
            if s[2][0] == "bytes" or t not in ctx:
                continue
            c = rng.random()
            if c < 0.3:
                v = ctx.pop(t)
                if rng.random() < 0.9:
                    table[(name, t)] = v if (same or rng.random() < 0.85) else g.value(s[2])
            elif c < 0.4:
                table[(name, t)] = g.value(s[2])
        elif op == "plist":
            ks = s[2]
            if t not in ctx or not ks or any(k[0] == "bytes" for k in ks) or rng.random() > 0.35:
                continue
            vals = ctx[t][1]
            j = rng.randrange(1, len(vals) + 1) if vals else 0
            # one default serves every missing element: keep to tails whose elements are all of one kind
            # (a default of another kind is coerced by the real writer - bool(0), int(bitarray) - not modelled)
            while j and (len(set(ks[len(vals) - j:])) > 1 or (same and len(set(repr(v) for v in vals[len(vals) - j:])) > 1)):
                j -= 1
            if j:
                table[(name, t)] = vals[len(vals) - j]
                del vals[len(vals) - j:]
                if not vals and rng.random() < 0.5:
                    del ctx[t]
        elif op == "sub":
            if t in ctx:
                omit(rng, g, s[2], ctx[t][1], t, table, same)
                if not ctx[t][1] and rng.random() < 0.5:
                    del ctx[t]
        elif op == "slist":
            if t in ctx:
                vals = ctx[t][1]
                for b, v in zip(s[2], vals):
                    omit(rng, g, b, v[1], t, table, same)
                while vals and not vals[-1][1] and rng.random() < 0.5:
                    vals.pop()
        elif op == "block":
            omit(rng, g, s[3], ctx, name, table, same)


def make_default_case(rng):
    """-> (program, description with omissions, {(context name, target): default value})"""
    g = Gen(rng)
    stmts, ctx = g.body(0)
    with_rng(ctx, rng)
    sizes(stmts, ctx, 0)
    strip_rng(ctx)
    stmts = retype(stmts)
    table = {}
    # where bit positions matter (byte alignment, bounded blocks) the default is the removed value itself, so that the
    # padding values of the description still have exactly the right length (shorter ones are zero-padded by the real
    # writer, by documented design; the model wants the exact length)
    omit(rng, g, stmts, ctx, "", table, same=positional(stmts))
    if rng.random() < 0.2:
        # ... and a value nobody reads, somewhere in the tree: defaults or not, that must still be refused
        dicts = []

        def walk(d):
            dicts.append(d)
            for v in d.values():
                if v[0] == "d":
                    walk(v[1])
                elif v[0] == "l":
                    for w in v[1]:
                        if w[0] == "d":
                            walk(w[1])
        walk(ctx)
        rng.choice(dicts)["zz_unused"] = ("i", rng.randrange(0, 9))
    return stmts, ctx, table


def real_serialise_defaults(stmts, ctx, table):
    from vc2_conformance.bitstream.io import BitstreamWriter
    from vc2_conformance.bitstream.serdes import Serialiser

    pyctx = to_py(("d", ctx))
    bytes_fix(stmts, pyctx)
    dv = {}
    for (name, t), v in table.items():
        dv.setdefault(dyn_type(name), {})[t] = to_py(v)
    f = BytesIO()
    w = BitstreamWriter(f)
    try:
        with Serialiser(w, pyctx, default_values=dv) as ser:
            run_prog(ser, stmts)
        bytepos, bitpos = w.tell()
        w.flush()
    except Exception as e:  # noqa
        return ("FAIL", type(e).__name__)
    nbits = bytepos * 8 + (7 - bitpos)
    return ("OK", bits_of_bytes(f.getvalue())[:nbits])


def has_unused(d):
    return "zz_unused" in d or any((v[0] == "d" and has_unused(v[1])) or (v[0] == "l" and any(w[0] == "d" and has_unused(w[1]) for w in v[1]))
                                   for k, v in d.items() if k != "zz_unused")


def violates_defaults(stmts, ctx, table):
    """the property on the REAL Serialiser with a default table: a value nobody reads makes serialisation fail, defaults or
    not; what is serialised reads back as a description that contains every supplied value unchanged"""
    r = real_serialise_defaults(stmts, ctx, table)
    if has_unused(ctx):
        if r[0] == "OK":
            return "a description holding a value that the program never reads was serialised (with a default table in use)"
        return None
    if r[0] != "OK":
        return None
    d = real_deserialise(stmts, r[1])
    if d[0] != "OK" or d[2] != len(r[1]):
        return "the bits written with defaults do not read back: %s" % (d[1] if d[0] != "OK" else "bits left over")

    def kept(supplied, got):
        if supplied[0] == "d":
            return isinstance(got, dict) and all(k in got and kept(v, got[k]) for k, v in supplied[1].items() if v[0] not in ("pad", "al"))
        if supplied[0] == "l":
            return isinstance(got, list) and len(got) >= len(supplied[1]) and all(kept(v, g) for v, g in zip(supplied[1], got))
        return canon(got) == canon(to_py(supplied))
    if not kept(("d", ctx), d[1]):
        return "a supplied value was replaced: supplied %s, read back %s" % (show_entries(ctx), canon(d[1]))
    return None


def show_table(table):
    out = []
    for (name, t), v in sorted(table.items()):
        out += [name or "_", t] + show_val(v)
    return out


def default_lines(rng, n, count):
    """the Serialiser WITH a default table: written bits, and the description the real Deserialiser reads back from them
    (the completed one), against the model's serialiseD"""
    lines, exp = [], []
    for _ in range(n):
        stmts, c, table = make_default_case(rng)
        lines.append("sd F %s :: %s :: %s" % (" ".join(show_stmts(stmts)), " ".join(show_entries(c)), " ".join(show_table(table))))
        r = real_serialise_defaults(stmts, c, table)
        if r[0] != "OK":
            exp.append("FAIL")
            count("sd:defaults:ser-fail:%s" % r[1])
            continue
        d = real_deserialise(stmts, r[1])
        if d[0] != "OK" or d[2] != len(r[1]):
            exp.append("UNREADABLE %s" % (d[1] if d[0] != "OK" else "bits left"))
            count("sd:defaults:unreadable")
            continue
        exp.append("OK %s | %s" % ("".join("1" if b else "0" for b in r[1]) or "-", canon(d[1])[2:-1]))
        count("sd:defaults:ok:%d-omitted" % min(len(table), 5))
    return lines, exp


def make_case(rng):
    g = Gen(rng)
    stmts, ctx = g.body(0)
    with_rng(ctx, rng)
    sizes(stmts, ctx, 0)
    strip_rng(ctx)
    return stmts, ctx


def corrupt(rng, stmts, ctx):
    """a description that is NOT exactly what the program needs"""
    ctx = copy.deepcopy(ctx)
    comps = [st for st in stmts if st[0] == "comp"]
    if comps and rng.random() < 0.3:
        # a value SUPPLIED for a computed target: overwritten by the computed one, not an error
        ctx[comps[0][1]] = ("i", 12345)
        return ctx, "supplied-computed"
    c = rng.random()
    keys = list(ctx)
    if c < 0.35 or not keys:
        ctx["zz_unused"] = ("i", 1)
        return ctx, "extra"
    k = rng.choice(keys)
    if c < 0.7:
        del ctx[k]
        return ctx, "missing"
    v = ctx[k]
    if v[0] == "l":
        if v[1] and rng.random() < 0.5:
            ctx[k] = ("l", v[1][:-1])
        else:
            ctx[k] = ("l", v[1] + [("i", 0)])
        return ctx, "list-length"
    if v[0] == "d":
        v[1]["zz_unused"] = ("i", 3)
        return ctx, "extra-nested"
    del ctx[k]
    return ctx, "missing"


def real_serialise(stmts, ctx):
    """-> ('OK', bits, context after) | ('FAIL', exception class)"""
    from vc2_conformance.bitstream.io import BitstreamWriter
    from vc2_conformance.bitstream.serdes import Serialiser

    pyctx = to_py(("d", ctx))
    bytes_fix(stmts, pyctx)
    f = BytesIO()
    w = BitstreamWriter(f)
    try:
        with Serialiser(w, pyctx) as ser:
            run_prog(ser, stmts)
        _, bitpos = w.tell()
        bytepos, _ = w.tell()
        w.flush()
    except Exception as e:  # noqa
        return ("FAIL", type(e).__name__)
    nbits = bytepos * 8 + (7 - bitpos)
    allbits = bits_of_bytes(f.getvalue())
    return ("OK", allbits[:nbits], ser.context, allbits[nbits:])


def real_deserialise(stmts, bits):
    from vc2_conformance.bitstream.io import BitstreamReader
    from vc2_conformance.bitstream.serdes import Deserialiser

    data = bytearray((len(bits) + 7) // 8)
    for i, b in enumerate(bits):
        if b:
            data[i // 8] |= 1 << (7 - i % 8)
    r = BitstreamReader(BytesIO(bytes(data)))
    try:
        with Deserialiser(r) as des:
            run_prog(des, stmts)
    except Exception as e:  # noqa
        return ("FAIL", type(e).__name__)
    bytepos, bitpos = r.tell()
    return ("OK", des.context, bytepos * 8 + (7 - bitpos))


def violates(stmts, ctx):
    """the round trip on the REAL framework alone"""
    s = real_serialise(stmts, ctx)
    if s[0] != "OK":
        return "a complete description failed to serialise: %s" % s[1]
    d = real_deserialise(stmts, s[1])
    if d[0] != "OK":
        return "deserialising the serialised bits failed: %s" % d[1]
    if canon(d[1]) != canon(s[2]):
        return "deserialised description differs: %s vs %s" % (canon(d[1]), canon(s[2]))
    return None


class Prop(object):
    id = "C21"
    lean_modules = ["VC2.Props.C21", "VC2.Props.C21Defaults"]
    status = "partial"
    rule = ("random description programs (depth <= 4, up to ~40 statements: all seven primitive kinds with several widths, list targets, nested sub-descriptions, "
            "lists of sub-descriptions, bounded blocks with 0-10 bits of trailing padding OR ending inside their contents (the bits past the end being 1s), byte alignment, computed values) with exactly matching random descriptions, "
            "interpreted on the REAL Serialiser (BitstreamWriter) and the REAL Deserialiser (BitstreamReader): written bits and resulting description compared with the model "
            "in both directions; plus corrupted descriptions (extra value, missing value, wrong list length, extra nested value) where both must fail")
    trusted = ["hand-written model lean/VC2/Model/Serdes.lean (+ SerdesCodec.lean over the C20 bit model) tied to the code by the sd correspondence",
               "bitarray, BytesIO"]
    assumptions = ["bit arrays and byte strings have exactly the requested length (shorter values are zero-padded by the real writer, by documented design)",
                   "byte_align inside a bounded block and nested bounded blocks are refused by the model (the real framework refuses nesting too; bitstream/vc2.py uses neither)",
                   "default_values: modelled for primitive and primitive-list targets (Model/SerdesDefaults.lean), a context's type being represented by the name it is entered by; "
                   "padding targets of bounded blocks and byte_align stay mandatory in the model; set_context_type is otherwise represented by a computed `__type__` entry"]

    def correspond(self, ctx):
        rng = ctx.rng("sd")
        self._bad = None
        sl, se, dl, de, fl, fe = [], [], [], [], [], []
        for _ in range(ctx.n(700, 12000)):
            stmts, c = make_case(rng)
            prog = " ".join(show_stmts(stmts))
            s = real_serialise(stmts, c)
            sl.append("sd S %s :: %s" % (prog, " ".join(show_entries(c))))
            if s[0] == "OK":
                bits = "".join("1" if b else "0" for b in s[1]) or "-"
                se.append("OK %s | %s" % (bits, canon(s[2])[2:-1]))
                extra = [rng.random() < 0.5 for _ in range(rng.randrange(0, 9))]
                d = real_deserialise(stmts, s[1] + extra)
                dl.append("sd D %s :: %s" % (prog, "".join("1" if b else "0" for b in s[1] + extra) or "-"))
                if d[0] == "OK":
                    de.append("OK %s| %d" % (canon(d[1])[2:-1], len(s[1]) + len(extra) - d[2] if False else len(s[1] + extra) - d[2]))
                else:
                    de.append("FAIL")
                ctx.count("sd:roundtrip:%s" % d[0])
                why = violates(stmts, c)
                if why and not self._bad:
                    self._bad = {"program": show_stmts(stmts), "description": show_entries(c), "why": why}
            else:
                se.append("FAIL")
                ctx.count("sd:ser-fail:%s" % s[1])
            # a corrupted description must fail in both
            bad, how = corrupt(rng, stmts, c)
            r = real_serialise(stmts, bad)
            fl.append("sd S %s :: %s" % (prog, " ".join(show_entries(bad))))
            fe.append("FAIL" if r[0] == "FAIL" else "OK %s | %s" % ("".join("1" if b else "0" for b in r[1]) or "-", canon(r[2])[2:-1]))
            ctx.count("sd:corrupt:%s:%s" % (how, r[1] if r[0] == "FAIL" else "accepted"))
        ctx.diff("sd serialise exact descriptions: bits and resulting description, model == real Serialiser", sl, se)
        ctx.diff("sd deserialise (with arbitrary trailing bits): description and bits consumed, model == real Deserialiser", dl, de)
        ctx.diff("sd corrupted descriptions (extra / missing value, wrong list length, supplied computed value): same outcome, model == real Serialiser", fl, fe,
                 nontrivial=lambda l, e: True)
        lines, exp = default_lines(rng, ctx.n(600, 10000), ctx.count)
        ctx.diff("sd F Serialiser WITH a default table (random omissions: primitive targets, list tails, whole lists and sub-descriptions; defaults per context type; "
                 "defaults for supplied targets too): bits and the description read back, model serialiseD == real", lines, exp)

    def findings(self, ctx):
        return [self._bad] if self._bad else []

    def search(self, ctx):
        rng = ctx.rng("search")
        for _ in range(ctx.n(3000, 40000)):
            stmts, c = make_case(rng)
            why = violates(stmts, c)
            if why:
                return {"program": show_stmts(stmts), "description": show_entries(c), "stmts": stmts, "ctx": c, "why": why}
        for _ in range(ctx.n(3000, 30000)):
            stmts, c, table = make_default_case(rng)
            why = violates_defaults(stmts, c, table)
            if why:
                return {"program": show_stmts(stmts), "description": show_entries(c), "defaults": show_table(table), "stmts": stmts, "ctx": c,
                        "table": [[k[0], k[1], list(v) if isinstance(v, tuple) else v] for k, v in table.items()], "why": why}
        return None

    def replay(self, ctx, path):
        with open(path) as f:
            r = json.load(f)
        fi = r.get("failing_input")
        if not fi or "stmts" not in fi:
            print("replay names broken obligations only:", r.get("broken_obligations"))
            return 1

        def tup(x):
            return tuple(tup(y) for y in x) if isinstance(x, list) else x

        def fix_stmts(ss):
            out = []
            for s in ss:
                s = list(s)
                if s[0] in ("sub",):
                    s[2] = fix_stmts(s[2])
                elif s[0] == "slist":
                    s[2] = [fix_stmts(b) for b in s[2]]
                elif s[0] == "block":
                    s[3] = fix_stmts(s[3])
                elif s[0] == "prim":
                    s[2] = tuple(s[2])
                elif s[0] == "plist":
                    s[2] = [tuple(k) for k in s[2]]
                out.append(tuple(s))
            return out

        def fix_val(v):
            tag, x = v
            if tag == "d":
                return ("d", dict((k, fix_val(w)) for k, w in x.items()))
            if tag == "l":
                return ("l", [fix_val(w) for w in x])
            return (tag, x)

        why = violates(fix_stmts(fi["stmts"]), dict((k, fix_val(v)) for k, v in fi["ctx"].items()))
        print("replay ->", why or "property holds")
        return 1 if why else 0


PROP = Prop()
