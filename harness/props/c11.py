"""C11 — forward and inverse wavelet transforms reconstruct exactly."""
import copy


def rand_vals(rng, n, big):
    if big:
        return [rng.choice([-1, 1]) * rng.getrandbits(rng.choice([8, 16, 33, 70])) for _ in range(n)]
    return [rng.randrange(-300, 300) for _ in range(n)]


def show_arr(a):
    h = len(a)
    w = len(a[0]) if h else 0
    return "%d,%d:%s" % (h, w, " ".join(str(v) for row in a for v in row))


def coeffs_str(cd, dho, d):
    parts = [show_arr(cd[0]["LL"] if dho == 0 else cd[0]["L"])]
    for n in range(1, dho + 1):
        parts.append(show_arr(cd[n]["H"]))
    for n in range(dho + 1, dho + d + 1):
        parts += [show_arr(cd[n]["HL"]), show_arr(cd[n]["LH"]), show_arr(cd[n]["HH"])]
    return ";".join(parts)


def mk_state(wv, wvho, dho, d, h, w):
    from vc2_conformance.pseudocode.state import State

    return State(wavelet_index=wv, wavelet_index_ho=wvho, dwt_depth=d, dwt_depth_ho=dho,
                 luma_width=w, luma_height=h, color_diff_width=w, color_diff_height=h)


def real_roundtrip(wv, wvho, dho, d, h, w, vals):
    """pad -> dwt -> idwt -> unpad on the REAL code; returns (padded, coeffs, result) strings"""
    from vc2_conformance.pseudocode.picture_encoding import dwt, dwt_pad_addition
    from vc2_conformance.pseudocode.picture_decoding import idwt, idwt_pad_removal

    st = mk_state(wv, wvho, dho, d, h, w)
    pic = [list(vals[y * w:(y + 1) * w]) for y in range(h)]
    dwt_pad_addition(st, pic, "Y")
    padded = show_arr(pic)
    cd = dwt(st, copy.deepcopy(pic))
    cs = coeffs_str(cd, dho, d)
    out = idwt(st, cd)
    idwt_pad_removal(st, out, "Y")
    return padded, cs, out


def violates(wv, wvho, dho, d, h, w, vals):
    from vc2_conformance.pseudocode.slice_sizes import subband_width, subband_height
    from vc2_conformance.pseudocode.picture_encoding import dwt, dwt_pad_addition

    try:
        padded, cs, out = real_roundtrip(wv, wvho, dho, d, h, w, vals)
        orig = [list(vals[y * w:(y + 1) * w]) for y in range(h)]
        if out != orig:
            return "idwt(dwt(picture)) != picture"
        # shapes
        st = mk_state(wv, wvho, dho, d, h, w)
        shapes = [p.split(":")[0] for p in cs.split(";")]
        exp = ["%d,%d" % (subband_height(st, 0, "Y"), subband_width(st, 0, "Y"))]
        for n in range(1, dho + 1):
            exp.append("%d,%d" % (subband_height(st, n, "Y"), subband_width(st, n, "Y")))
        for n in range(dho + 1, dho + d + 1):
            exp += ["%d,%d" % (subband_height(st, n, "Y"), subband_width(st, n, "Y"))] * 3
        if shapes != exp:
            return "subband shapes %s != slice geometry %s" % (shapes, exp)
    except Exception as e:  # noqa
        return "raised %s: %s" % (type(e).__name__, e)
    return None


def cases(rng, n, max_depth=2):
    for i in range(n):
        wv, wvho = rng.randrange(7), rng.randrange(7)
        d = rng.randrange(0, max_depth + 1)
        dho = rng.randrange(0, max_depth + 1)
        h = rng.randrange(1, 10)
        w = rng.randrange(1, 12)
        yield wv, wvho, dho, d, h, w, rand_vals(rng, h * w, i % 5 == 0)


class Prop(object):
    id = "C11"
    lean_modules = ["VC2.Props.C11"]
    status = "full"
    anchored_functions = ["subband_width", "subband_height"]
    rule = ("lift1-4 with random stage parameters, oned_synthesis/analysis for the 7 real filters, and "
            "pad/dwt/idwt/unpad for all 7x7 filter pairs, depths 0-2(3) each way, sizes 1x1..9x11, random values incl. > 2^64, "
            "compared value by value (padded picture, every subband, result) between model and real code; non-trivial = array has >= 2 samples")
    trusted = ["hand-written model lean/VC2/Model/Wavelet.lean tied to the code by this correspondence",
               "table export harness/gen_tables.py (LIFTING_FILTERS read from the imported vc2_data_tables)",
               "translator T1 for subband_width/subband_height"]
    assumptions = ["nested Python lists / column views behave as index functions (each row/column processed independently)"]

    def correspond(self, ctx):
        import kernels
        from vc2_conformance.pseudocode.picture_decoding import (SYNTHESIS_LIFTING_FUNCTION_TYPES, oned_synthesis)
        from vc2_conformance.pseudocode.picture_encoding import oned_analysis
        from vc2_data_tables import LiftingFilterTypes

        kernels.self_check(ctx, ["subband_width", "subband_height"], n_random=ctx.n(300, 3000))
        rng = ctx.rng("wt")
        nt = lambda l, e: len(l.split("|")[1].split()) >= 2  # noqa
        lines, exp = [], []
        # single lifts with arbitrary stage parameters
        for i in range(ctx.n(1500, 20000)):
            kind = rng.randrange(1, 5)
            L = rng.randrange(0, 6)
            D = rng.randrange(-4, 3)
            S = rng.randrange(0, 6)
            taps = [rng.randrange(-20, 21) for _ in range(L)]
            n = rng.choice([0, 2, 2, 4, 6, 8, 10, 3, 5])  # odd lengths too: the model must still agree
            vals = rand_vals(rng, n, i % 7 == 0)
            A = list(vals)
            try:
                SYNTHESIS_LIFTING_FUNCTION_TYPES[LiftingFilterTypes(kind)](A, L, D, taps, S)
                res = " ".join(str(v) for v in A)
            except Exception as e:  # noqa
                res = "ERR:%s" % type(e).__name__
            if n < 2 and L > 0:
                continue
            if n % 2 == 1:
                continue  # odd lengths never occur (padding); python negative-index wraparound is not modelled
            lines.append("wt lift %d %d %d %d %s | %s" % (kind, L, D, S, ",".join(map(str, taps)) or "0",
                                                          " ".join(map(str, vals))))
            exp.append(res)
        ctx.diff("wt lift1-4 model == real (random stages)", lines, exp, nt)
        lines, exp = [], []
        for i in range(ctx.n(700, 7000)):
            idx = rng.randrange(7)
            n = rng.choice([2, 4, 6, 8, 12, 16])
            vals = rand_vals(rng, n, i % 6 == 0)
            A = list(vals)
            oned_synthesis(A, idx)
            lines.append("wt syn %d | %s" % (idx, " ".join(map(str, vals))))
            exp.append(" ".join(str(v) for v in A))
            A = list(vals)
            oned_analysis(A, idx)
            lines.append("wt ana %d | %s" % (idx, " ".join(map(str, vals))))
            exp.append(" ".join(str(v) for v in A))
        ctx.diff("wt oned_synthesis/oned_analysis model == real (7 filters)", lines, exp, nt)
        lines, exp = [], []
        all_pairs = [(a, b) for a in range(7) for b in range(7)]
        k = 0
        for wv, wvho, dho, d, h, w, vals in cases(rng, ctx.n(250, 1500), ctx.n(2, 3)):
            if k < len(all_pairs):
                wv, wvho = all_pairs[k]  # every filter pair at least once
            k += 1
            padded, cs, out = real_roundtrip(wv, wvho, dho, d, h, w, vals)
            lines.append("wt rt %d %d %d %d %d %d | %s" % (wv, wvho, dho, d, h, w, " ".join(map(str, vals))))
            exp.append(padded + ";" + cs + ";" + show_arr(out))
            ctx.count("wt:depths:%d+%d" % (d, dho))
        ctx.diff("wt pad/dwt/idwt/unpad model == real (all filter pairs)", lines, exp, nt)

    def search(self, ctx):
        rng = ctx.rng("search")
        for args in cases(rng, ctx.n(1500, 20000), 3):
            why = violates(*args)
            if why:
                return dict(zip(["wavelet_index", "wavelet_index_ho", "dwt_depth_ho", "dwt_depth", "h", "w", "values"], args), why=why)
        return None

    def replay(self, ctx, path):
        import json

        with open(path) as f:
            r = json.load(f)
        fi = r.get("failing_input")
        if not fi:
            print("replay names broken obligations only:", r.get("broken_obligations"))
            return 1
        why = violates(fi["wavelet_index"], fi["wavelet_index_ho"], fi["dwt_depth_ho"], fi["dwt_depth"], fi["h"], fi["w"], fi["values"])
        print("replay -> %s" % (why or "property holds"))
        return 1 if why else 0


PROP = Prop()
