"""C18 — the data-unit pattern matcher implements its regular-expression language."""
import symre_ref as ref


def py_ast_str(a):
    from vc2_conformance import symbol_re as sr

    if a is None:
        return "E"
    if isinstance(a, sr.Symbol):
        return "S($)" if a.symbol == "" else "S(%s)" % a.symbol
    if isinstance(a, sr.Star):
        return "*(%s)" % py_ast_str(a.expr)
    if isinstance(a, sr.Concatenation):
        return "C(%s,%s)" % (py_ast_str(a.a), py_ast_str(a.b))
    return "U(%s,%s)" % (py_ast_str(a.a), py_ast_str(a.b))


ERRMAP = [("Multiple modifiers", "ERR:multipleModifiers"), ("Modifier before '|'", "ERR:modifierBeforeBar"),
          ("Unmatched", "ERR:unmatched"), ("Modifier before '('", "ERR:modifierBeforeParen"),
          ("Modifier at start", "ERR:modifierAtStart")]


def real_parse(pattern):
    from vc2_conformance import symbol_re as sr

    try:
        return py_ast_str(sr.parse_regex(pattern))
    except sr.SymbolRegexSyntaxError as e:
        for k, v in ERRMAP:
            if k in str(e):
                return v
        return "ERR:other"
    except Exception as e:  # noqa
        return "CRASH:%s" % type(e).__name__


def status(m):
    syms = sorted("$" if s == "" else s for s in m.valid_next_symbols())
    return "C:%s V:%s" % ("T" if m.is_complete() else "F", ",".join(syms))


def real_match(pattern, word):
    from vc2_conformance import symbol_re as sr

    try:
        m = sr.Matcher(pattern)
    except sr.SymbolRegexSyntaxError as e:
        for k, v in ERRMAP:
            if k in str(e):
                return v
        return "ERR:other"
    out = [status(m)]
    for s in word:
        ok = m.match_symbol("" if s == "$" else s)
        out.append(("T " if ok else "F ") + status(m))
    return " | ".join(out)


def violates(ast, pattern, word, alphabet):
    """Property predicate on the REAL Matcher vs the derivative reference.  `ast` is the
    reference AST of `pattern`.  Returns a description or None."""
    from vc2_conformance import symbol_re as sr

    try:
        m = sr.Matcher(pattern)
        prefix = []
        for i in range(len(word) + 1):
            # completion and valid next symbols at this point
            exp_c = ref.complete(ast, prefix)
            if m.is_complete() != exp_c:
                return "after %s: is_complete()=%s, whole-sequence match=%s" % (prefix, m.is_complete(), exp_c)
            v = m.valid_next_symbols()
            if ("" in v) != exp_c:
                return "after %s: end-of-sequence %s valid_next_symbols but completion is %s" % (
                    prefix, "in" if "" in v else "not in", exp_c)
            for s in list(alphabet) + ["zz_unused"]:
                acc = ref.viable(ast, prefix + [s])
                listed = (s in v) or ("." in v)
                if acc != listed:
                    return "after %s: symbol %r keeps a match possible=%s but valid_next_symbols=%s" % (
                        prefix, s, acc, sorted(v))
            if i == len(word):
                break
            s = word[i]
            exp = ref.viable(ast, prefix + [s])
            got = m.match_symbol(s)
            if got != exp:
                return "after %s: match_symbol(%r)=%s but prefix-of-a-match=%s" % (prefix, s, got, exp)
            if not got:
                break
            prefix.append(s)
    except Exception as e:  # noqa
        return "raised %s: %s" % (type(e).__name__, e)
    return None


def level_patterns():
    from vc2_conformance.level_constraints import LEVEL_SEQUENCE_RESTRICTIONS

    return sorted((int(k), v.sequence_restriction_regex) for k, v in LEVEL_SEQUENCE_RESTRICTIONS.items())


def parse_code_names():
    from vc2_data_tables import ParseCodes

    return [p.name for p in ParseCodes]


def toks_of(pattern):
    import re

    return " ".join(re.findall(r"\w+|[.$?*+|()]", pattern))


def random_walk(rng, ast, names, n):
    """a word that mostly follows the pattern (reference-guided), with occasional bad symbols"""
    w = []
    for _ in range(n):
        good = [s for s in names if ref.viable(ast, w + [s])]
        if good and rng.random() < 0.85:
            w.append(rng.choice(good))
        else:
            w.append(rng.choice(names))
    return w


def gen_malformed(rng):
    toks = [rng.choice(["a", "b", ".", "$", "?", "*", "+", "|", "(", ")"]) for _ in range(rng.randrange(1, 8))]
    return " ".join(toks)


class Prop(object):
    id = "C18"
    lean_modules = ["VC2.Props.C18"]
    status = "full"
    rule = ("every pattern AST up to size 4 (quick) / 5 (thorough) over {a, b, .} with ?,*,|,concatenation, each also with a trailing $, "
            "x every word over {a,b,c} up to length 4: parse result, every match_symbol verdict, is_complete and valid_next_symbols after every "
            "step, compared between model and real Matcher; plus the real level patterns over all parse-code names (reference-guided random walks) "
            "and malformed token strings (error kinds). Distinct = distinct (pattern, word) lines")
    trusted = ["hand-written model lean/VC2/Model/SymRe.lean tied to the code by this correspondence",
               "tokenisation (`re` module) is not modelled: the harness hands the model the token list"]
    assumptions = ["`$` is used only where nothing mandatory follows it (hypothesis of the completion theorem, as in the property)"]

    def correspond(self, ctx):
        rng = ctx.rng("re")
        lines, exp = [], []
        words = list(ref.words(["a", "b", "c"], ctx.n(4, 5)))
        maxsize = ctx.n(4, 5)
        n_pat = 0
        for size in range(1, maxsize + 1):
            for ast in ref.all_asts(size):
                for dollar in (False, True):
                    pat = ref.render2(ast) + (" $" if dollar else "")
                    n_pat += 1
                    lines.append("re P %s" % pat)
                    exp.append(real_parse(pat))
                    # one line per pattern carrying a batch of words keeps the run fast
                    for w in (words if size <= 3 else rng.sample(words, 25)):
                        lines.append("re M 0 %s / %s" % (pat, " ".join(w)))
                        exp.append(real_match(pat, w))
        ctx.count("re:patterns-exhaustive", n_pat)
        ctx.diff("re exhaustive small patterns x words: model == real parse_regex/Matcher", lines, exp)
        lines, exp = [], []
        names = parse_code_names()
        for level, pat in level_patterns():
            ast = ref.parse(pat)
            tp = toks_of(pat)
            lines.append("re P %s" % tp)
            exp.append(real_parse(pat))
            for _ in range(ctx.n(40, 400)):
                w = random_walk(rng, ast, names, rng.randrange(1, 9))
                lines.append("re M 0 %s / %s" % (tp, " ".join(w)))
                exp.append(real_match(pat, w))
        ctx.diff("re real level patterns over all data-unit names: model == real Matcher", lines, exp)
        lines, exp = [], []
        for _ in range(ctx.n(1500, 15000)):
            pat = gen_malformed(rng)
            lines.append("re P %s" % pat)
            exp.append(real_parse(pat))
        for e in exp:
            ctx.count("re:malformed:%s" % (e if e.startswith("ERR") or e.startswith("CRASH") else "parsed"))
        ctx.diff("re malformed token strings: model == real parse_regex (error kinds)", lines, exp)
        # random bigger patterns
        lines, exp = [], []
        for _ in range(ctx.n(600, 8000)):
            ast = ref.gen_ast(rng, rng.randrange(3, 9))
            pat = ref.render2(ast) + (" $" if rng.random() < 0.3 else "")
            w = [rng.choice("abc") for _ in range(rng.randrange(0, 7))]
            lines.append("re M 0 %s / %s" % (pat, " ".join(w)))
            exp.append(real_match(pat, w))
        ctx.diff("re random larger patterns: model == real Matcher", lines, exp)

    def search(self, ctx):
        rng = ctx.rng("search")
        words = list(ref.words(["a", "b", "c"], 4))
        words3 = list(ref.words(["a", "b", "c"], 3))
        for size in range(1, 6):
            for ast in ref.all_asts(size):
                for dollar in (False, True):
                    full = ("C", ast, ("S", "$")) if dollar else ast
                    pat = ref.render2(ast) + (" $" if dollar else "")
                    for w in (words if size <= 4 else words3):
                        why = violates(full, pat, w, ["a", "b", "c"])
                        if why:
                            return {"pattern": pat, "word": w, "why": why}
        for _ in range(ctx.n(3000, 30000)):
            ast = ref.gen_ast(rng, rng.randrange(3, 9))
            dollar = rng.random() < 0.3
            full = ("C", ast, ("S", "$")) if dollar else ast
            pat = ref.render2(ast) + (" $" if dollar else "")
            w = [rng.choice("abc") for _ in range(rng.randrange(0, 7))]
            why = violates(full, pat, w, ["a", "b", "c"])
            if why:
                return {"pattern": pat, "word": w, "why": why}
        names = parse_code_names()
        for level, pat in level_patterns():
            ast = ref.parse(pat)
            for _ in range(ctx.n(60, 600)):
                w = random_walk(rng, ast, names, rng.randrange(1, 9))
                why = violates(ast, pat, w, names)
                if why:
                    return {"pattern": pat, "level": level, "word": w, "why": why}
        return None

    def replay(self, ctx, path):
        import json

        with open(path) as f:
            r = json.load(f)
        fi = r.get("failing_input")
        if not fi:
            print("replay names broken obligations only:", r.get("broken_obligations"))
            return 1
        ast = ref.parse(fi["pattern"])
        alphabet = parse_code_names() if "level" in fi else ["a", "b", "c"]
        why = violates(ast, fi["pattern"], fi["word"], alphabet)
        print("replay pattern=%r word=%s -> %s" % (fi["pattern"], fi["word"], why or "property holds"))
        return 1 if why else 0


PROP = Prop()
