"""C12 — quantisation reconstructs within one step and distinguishes indices."""
import kernels

FUNCS = ["quant_factor", "quant_offset", "inverse_quant", "forward_quant", "sign"]


def violates(x, i):
    """Property predicate on the REAL code; returns a description or None."""
    from vc2_conformance.pseudocode.quantization import inverse_quant, forward_quant, quant_factor
    from vc2_conformance.pseudocode.vc2_math import sign

    try:
        qf = quant_factor(i)
        r = inverse_quant(forward_quant(x, i), i)
        if not 4 * abs(r - x) < qf:
            return "reconstruction error %d not below one step (quant_factor %d / 4)" % (abs(r - x), qf)
        if r != 0 and sign(r) != sign(x):
            return "sign flipped: %d -> %d" % (x, r)
        if i == 0 and r != x:
            return "index 0 is not lossless: %d -> %d" % (x, r)
        if not quant_factor(i) < quant_factor(i + 1):
            return "quant_factor not strictly increasing at %d" % i
        if i >= 7 and not inverse_quant(1, i) < inverse_quant(1, i + 1):
            return "inverse_quant(1, .) not strictly increasing at %d" % i
    except Exception as e:  # noqa
        return "raised %s: %s" % (type(e).__name__, e)
    return None


class Prop(object):
    id = "C12"
    lean_modules = ["VC2.Props.C12"]
    status = "full"
    anchored_functions = FUNCS
    rule = ("generated Lean definition vs real Python function on the same arguments: exhaustive box "
            "index -3..39 x coefficient -40..40 plus seeded random (indices to 600, coefficients to 2^200); "
            "non-trivial = the Python side returned a value (not an exception)")
    trusted = ["translator T1 (harness/py2lean.py, ~600 lines), differentially self-checked on every run"]

    def correspond(self, ctx):
        kernels.self_check(ctx, FUNCS)
        # the exported constant really is what the test case uses
        import importlib

        lq = importlib.import_module("vc2_conformance.test_cases.decoder.lossless_quantization")

        ctx.extra["MINIMUM_DISTINCT_QINDEX"] = lq.MINIMUM_DISTINCT_QINDEX

    def search(self, ctx):
        rng = ctx.rng("search")
        for i in range(0, 301):
            for x in list(range(-300, 301)):
                why = violates(x, i)
                if why:
                    return {"function": "inverse_quant(forward_quant(x, i), i)", "x": x, "i": i, "why": why}
        for _ in range(ctx.n(20000, 200000)):
            i = rng.randrange(0, 600)
            x = rng.choice([-1, 1]) * rng.getrandbits(rng.choice([8, 20, 40, 64, 128]))
            why = violates(x, i)
            if why:
                return {"function": "inverse_quant(forward_quant(x, i), i)", "x": x, "i": i, "why": why}
        return None

    def replay(self, ctx, path):
        import json

        with open(path) as f:
            r = json.load(f)
        fi = r.get("failing_input")
        if not fi:
            print("replay names broken obligations only:", r.get("broken_obligations"))
            return 1
        why = violates(fi["x"], fi["i"])
        print("replay x=%s i=%s -> %s" % (fi["x"], fi["i"], why or "property holds"))
        return 1 if why else 0


PROP = Prop()
