"""C02 — the validator terminates with a verdict on any byte string."""
import json

import bytesgen as B


def classify(res):
    if res.startswith("CRASH"):
        return "violation"
    if res in ("OUT-OF-SCOPE", "TIMEOUT"):
        return "skipped"
    return "ok"


class Prop(object):
    id = "C02"
    lean_modules = ["VC2.Props.C02"]
    status = "partial"
    rule = ("byte strings: 12 conformant seed streams (HQ/LD, fragments, lossless depth 2, asymmetric transform, custom quantisation matrix, fields, padding/aux, "
            "two sequences of different formats) and their mutations - random bytes, truncations, bit flips, byte substitutions, insertions/deletions, and field-aware "
            "mutations through the real deserialise/edit/serialise path (levels incl. 64-66, profiles, versions, base formats, flags, indices, transform and slice parameters, offsets) - "
            "run through the REAL validator under the size guard; for every ConformanceError explain(), bitstream_viewer_hint(), offending_offset() and str() are called. "
            "distinct = distinct inputs that were validated (not skipped)")
    trusted = ["models Stream.lean (C01) and BitIO.lean (C20) with their correspondences; the raise-site and error-class inventories are regenerated from the decoder source each run",
               "the size guard (harness/bytesgen.py Guard) wraps assert_level_constraint in-process as the property prescribes; inputs above the bound or slower than 5 s are skipped and counted"]
    assumptions = ["frame dimensions <= 64, transform depths <= 4, slice counts <= 16 per axis (above: out of scope)"]

    def correspond(self, ctx):
        rng = ctx.rng("bytes")
        self._bad = None
        seeds = B.seeds()
        ctx.corr_names.append("REAL validator on mutated byte strings: verdict is OK or a ConformanceError whose reporting methods work")
        cases = [(n, d) for n, d in seeds]
        # directed header variants (unknown and too-new preset indices of every kind, odd field heights ...): error classes
        # and report formatters that random mutation practically never reaches; also mutated further
        directed = B.directed_variants()
        ctx.count("directed-variants", len(directed))
        cases += directed
        pool = seeds + directed
        for i in range(ctx.n(5000, 120000)):
            n, d = rng.choice(pool if i % 5 == 0 else seeds)
            cases.append((n, B.mutate(rng, d)))
        for n, data in cases:
            res = B.validate(data)
            ctx.evaluations += 1
            c = classify(res)
            ctx.count("validator:%s" % (res if c != "ok" else ("OK" if res == "OK" else "ConformanceError")))
            if c == "ok":
                ctx.distinct.add(hash(data))
                ctx.count("error:%s" % res, 1) if res != "OK" else None
            if c == "violation" and not self._bad:
                self._bad = {"seed": n, "bytes": data.hex(), "why": "validator outcome %s" % res}
        ctx.traces += len(cases)
        for n, d in seeds:
            if B.validate(d) != "OK":
                ctx.broke("correspondence", "seed stream %s is not accepted" % n, B.validate(d))

    def findings(self, ctx):
        return [self._bad] if self._bad else []

    def search(self, ctx):
        rng = ctx.rng("search")
        seeds = B.seeds() + B.directed_variants()
        for n, d in B.directed_variants():
            res = B.validate(d)
            if classify(res) == "violation":
                return {"seed": n, "bytes": d.hex(), "why": "validator outcome %s" % res}
        for _ in range(ctx.n(8000, 150000)):
            n, d = rng.choice(seeds)
            m = B.mutate(rng, d)
            res = B.validate(m)
            if classify(res) == "violation":
                return {"seed": n, "bytes": m.hex(), "why": "validator outcome %s" % res}
        return None

    def replay(self, ctx, path):
        with open(path) as f:
            r = json.load(f)
        fi = r.get("failing_input")
        if not fi:
            print("replay names broken obligations only:", r.get("broken_obligations"))
            return 1
        res = B.validate(bytes.fromhex(fi["bytes"]))
        print("replay ->", res)
        return 1 if classify(res) == "violation" else 0


PROP = Prop()
