"""C28 — codec-features CSV reading either succeeds in-domain or explains."""
import csv
import io
import json

SAMPLES = ["/repo/tests/sample_codec_features.csv", "/repo/docs/source/_static/user_guide/sample_codec_features.csv"]

VP_ORDER = ["frame_width", "frame_height", "color_diff_format_index", "source_sampling", "top_field_first",
            "frame_rate_numer", "frame_rate_denom", "pixel_aspect_ratio_numer", "pixel_aspect_ratio_denom", "clean_width",
            "clean_height", "left_offset", "top_offset", "luma_offset", "luma_excursion", "color_diff_offset",
            "color_diff_excursion", "color_primaries_index", "color_matrix_index", "transfer_function_index"]

ENUM_FIELDS = {"level": "Levels", "profile": "Profiles", "picture_coding_mode": "PictureCodingModes",
               "wavelet_index": "WaveletFilters", "wavelet_index_ho": "WaveletFilters", "base_video_format": "BaseVideoFormats",
               "color_diff_format_index": "ColorDifferenceSamplingFormats", "source_sampling": "SourceSamplingModes",
               "color_primaries_index": "PresetColorPrimaries", "color_matrix_index": "PresetColorMatrices",
               "transfer_function_index": "PresetTransferFunctions"}
MINIMUMS = {"dwt_depth": 0, "dwt_depth_ho": 0, "slices_x": 1, "slices_y": 1, "fragment_slice_count": 0,
            "frame_width": 1, "frame_height": 1, "frame_rate_numer": 1, "frame_rate_denom": 1, "pixel_aspect_ratio_numer": 1,
            "pixel_aspect_ratio_denom": 1, "clean_width": 0, "clean_height": 0, "left_offset": 0, "top_offset": 0,
            "luma_offset": 0, "luma_excursion": 1, "color_diff_offset": 0, "color_diff_excursion": 1}


def sample_rows():
    out = []
    for p in SAMPLES:
        with open(p) as f:
            out.append([list(r) for r in csv.reader(f)])
    return out


def render(rows):
    f = io.StringIO()
    csv.writer(f, lineterminator="\n").writerows(rows)
    return f.getvalue()


def flat_qm(qm):
    if qm is None:
        return None
    out = []
    for level in sorted(qm):
        for o in ("L", "LL", "H", "HL", "LH", "HH"):
            if o in qm[level]:
                out.append(qm[level][o])
    return out


def show(cf):
    try:
        return _show(cf)
    except (TypeError, ValueError, KeyError) as e:   # a returned field outside its documented domain (None, wrong type)
        return "OUT-OF-DOMAIN %s" % type(e).__name__


def _show(cf):
    vp = cf["video_parameters"]
    return "|".join([cf["name"], str(int(cf["level"])), str(int(cf["profile"])), str(int(cf["picture_coding_mode"])),
                     str(int(cf["wavelet_index"])), str(int(cf["wavelet_index_ho"])), str(cf["dwt_depth"]), str(cf["dwt_depth_ho"]),
                     str(cf["slices_x"]), str(cf["slices_y"]), str(cf["fragment_slice_count"]),
                     "true" if cf["lossless"] else "false", str(int(vp_base(cf))),
                     ",".join(str(int(vp[k])) for k in VP_ORDER),
                     "None" if cf["picture_bytes"] is None else str(cf["picture_bytes"]),
                     "None" if cf["quantization_matrix"] is None else ",".join(map(str, flat_qm(cf["quantization_matrix"])))])


_BASE = {}


def vp_base(cf):
    return _BASE.get(cf["name"], -1)


def run_real(text_or_lines, rows=None):
    from vc2_conformance.codec_features import read_codec_features_csv, InvalidCodecFeaturesError, parse_int_enum
    from vc2_data_tables import BaseVideoFormats

    src = io.StringIO(text_or_lines) if isinstance(text_or_lines, str) else text_or_lines
    try:
        res = read_codec_features_csv(src)
    except InvalidCodecFeaturesError:
        return "INVALID", None
    except Exception as e:  # noqa
        return "CRASH:%s" % type(e).__name__, None
    # the base video format is not stored in CodecFeatures: recover it from the rows for the comparison
    _BASE.clear()
    if rows is not None:
        cols = {}
        names = {}
        for r in rows:
            if not r:
                continue
            k = r[0].strip()
            for i, v in enumerate(r[1:]):
                if v.strip():
                    if k == "base_video_format":
                        cols[i] = v.strip()
                    if k == "name":
                        names[i] = v.strip()
        from itertools import islice
        from vc2_conformance.codec_features import spreadsheet_column_names
        letters = list(islice(spreadsheet_column_names(), 1, 200))
        for i, v in cols.items():
            nm = names.get(i, "column_%s" % letters[i])
            try:
                _BASE[nm] = int(parse_int_enum(BaseVideoFormats, v))
            except Exception:
                pass
    return "OK " + " ;; ".join(show(cf) for cf in res.values()), res


def n_columns(rows):
    """columns of the table that carry at least one value (comment rows and rows without a key aside)"""
    cols = set()
    for r in rows:
        if not r or not r[0].strip() or r[0].strip().startswith("#"):
            continue
        for i, v in enumerate(r[1:]):
            if v.strip():
                cols.add(i)
    return len(cols)


def in_domain(res):
    """the property's documented domains, checked on the REAL result"""
    import vc2_data_tables as t

    names = list(res)
    if len(set(names)) != len(names):
        return "duplicate names"
    for name, cf in res.items():
        vp = cf["video_parameters"]
        for k, e in ENUM_FIELDS.items():
            if k == "base_video_format":
                continue
            v = cf[k] if k in cf else vp[k]
            if not isinstance(v, getattr(t, e)):
                return "%s=%r is not a %s member" % (k, v, e)
        for k, m in MINIMUMS.items():
            v = cf[k] if k in cf else vp[k]
            if not isinstance(v, int) or isinstance(v, bool) or v < m:
                return "%s=%r below %d" % (k, v, m)
        if not isinstance(cf["lossless"], bool) or not isinstance(vp["top_field_first"], bool):
            return "non-bool flag"
        if cf["lossless"] != (cf["picture_bytes"] is None):
            return "picture_bytes presence does not match lossless"
        if cf["picture_bytes"] is not None and cf["picture_bytes"] < 1:
            return "picture_bytes < 1"
        qm = cf["quantization_matrix"]
        if qm is not None:
            d, dh = cf["dwt_depth"], cf["dwt_depth_ho"]
            want = {0: ["LL"] if dh == 0 else ["L"]}
            for l in range(1, dh + 1):
                want[l] = ["H"]
            for l in range(dh + 1, d + dh + 1):
                want[l] = ["HL", "LH", "HH"]
            if {l: sorted(o) for l, o in qm.items()} != {l: sorted(o) for l, o in want.items()}:
                return "quantisation matrix has the wrong shape for depths %d/%d" % (d, dh)
    return None


BAD_CELLS = ["", "default", "DEFAULT", "-1", "0", "1", "2", "7", "65", "1000000", "+3", " 4 ", "1_0", "_1", "1__0", "1.5", "1e3",
             "abc", "inf", "nan", "-inf", "0x10", "TRUE", "false", "y", "No", "maybe", "hd", "high_quality", "le_gall_5_3",
             "custom_format", "0 0 0 0", "1 2 3 4 5 6 7", "1 2 x", "99999999999999999999999", "--1", "1 ", "\t2"]


def mutate(rng, rows):
    rows = [list(r) for r in rows]
    k = rng.random()
    body = [i for i, r in enumerate(rows) if r and r[0].strip() and not r[0].strip().startswith("#")]
    if k < 0.55:  # replace one cell
        for _ in range(rng.choice([1, 1, 2, 3])):
            i = rng.choice(body)
            if len(rows[i]) > 1:
                j = rng.randrange(1, len(rows[i]))
                rows[i][j] = rng.choice(BAD_CELLS)
    elif k < 0.65:  # delete a row
        del rows[rng.choice(body)]
    elif k < 0.75:  # duplicate a row (later one wins) or add an unknown row
        i = rng.choice(body)
        if rng.random() < 0.5:
            rows.append(list(rows[i]))
            j = rng.randrange(1, len(rows[-1]))
            rows[-1][j] = rng.choice(BAD_CELLS)
        else:
            rows.append(["bogus_row"] + [rng.choice(["", "1"]) for _ in rows[i][1:]])
    elif k < 0.85:  # duplicate names / missing names
        for r in rows:
            if r and r[0].strip() == "name" and len(r) > 2:
                a = rng.randrange(1, len(r))
                # another column's name, no name (the default `column_<letter>` is used), padded name, or - the corner -
                # an explicit name that IS the default name of some (earlier or later) column
                r[a] = rng.choice([r[rng.randrange(1, len(r))], "", " " + r[a] + " ",
                                   "column_" + "ABCDEFG"[rng.randrange(1, len(r))], "column_" + "ABCDEFG"[rng.randrange(1, len(r))]])
                if rng.random() < 0.6:
                    b = rng.randrange(1, len(r))
                    r[b] = rng.choice(["", "", "column_" + "ABCDEFG"[rng.randrange(1, len(r))]])
    elif k < 0.93:  # consistent depth / matrix / lossless changes
        for r in rows:
            if r and r[0].strip() in ("dwt_depth", "dwt_depth_ho", "lossless", "quantization_matrix", "picture_bytes") and rng.random() < 0.5:
                j = rng.randrange(1, len(r))
                r[j] = rng.choice(["0", "1", "2", "3", "TRUE", "FALSE", "", "0 0 0 0", "1 2 3 4 5", "1 1 1 1 1 1 1 1", "default", "100"])
    else:  # extra empty/comment rows, extra column
        rows.insert(rng.randrange(len(rows)), rng.choice([[], ["", "x"], ["# c", "1"], ["  "]]))
        if rng.random() < 0.5:
            for r in rows:
                if r and r[0].strip() and not r[0].startswith("#"):
                    r.append(r[-1] if rng.random() < 0.9 else "")
    if rng.random() < 0.2:
        # column names are free text: names holding characters that mean something to str.format / % formatting
        for r in rows:
            if r and r[0].strip() == "name" and len(r) > 1:
                r[rng.randrange(1, len(r))] = rng.choice(["{}", "{0}", "{lossy}", "set{8x4}", "open{", "close}", "%s", "%d%%", "{name}", "{0!r:>{1}}", "a{b}c"])
    return rows


def enc(rows):
    return "cf " + " ; ".join(" ".join("x" + c.encode("ascii").hex() for c in r) for r in rows)


# texts that csv.reader itself rejects (not expressible as rows): the property still demands
# InvalidCodecFeaturesError
MALFORMED_TEXTS = [
    ("field longer than csv.field_size_limit", "name," + "x" * 140000 + "\n"),
    ("unterminated quote", 'name,"abc\nlevel,0\n'),
    ("NUL byte", "name,a\0b\n"),
    ("empty", ""),
    ("only commas", ",,,\n,,\n"),
]


class Prop(object):
    id = "C28"
    lean_modules = ["VC2.Props.C28"]
    status = "partial"
    rule = ("cell/row/column mutants of the two sample codec-feature CSV files (empty, 'default', malformed numbers, out-of-range enums and minimums, "
            "sign/underscore/whitespace integer spellings, extra/missing/duplicated rows, duplicate and missing names, depth/matrix/lossless combinations, extra columns), "
            "rendered with csv.writer and read by the REAL read_codec_features_csv: outcome class and every returned field compared with the model; "
            "the documented domains are additionally checked on the REAL result; raw texts that csv.reader itself rejects are fed to the real reader only")
    trusted = ["hand-written model lean/VC2/Model/CodecCsv.lean tied to the code by the cf correspondence",
               "library contracts assumed and exercised, not modelled: csv.reader tokenisation, int(str) (modelled for ASCII text as pyInt and compared cell by cell), "
               "str.strip/lower/split, IntEnum construction; the enum member tables and per-base-format source defaults are generated from the running modules"]
    assumptions = ["cells are ASCII in the correspondence (the model's int parser covers sign, whitespace and single underscores)"]

    def correspond(self, ctx):
        rng = ctx.rng("cf")
        self._bad = None
        lines, exp = [], []
        samples = sample_rows()
        cases = [s for s in samples]
        for _ in range(ctx.n(1500, 30000)):
            cases.append(mutate(rng, rng.choice(samples)))
        for rows in cases:
            try:
                text = render(rows)
                line = enc(rows)
            except (UnicodeEncodeError, csv.Error):
                continue
            res, val = run_real(text, rows)
            lines.append(line)
            exp.append(res)
            ctx.count("cf:%s" % res.split(" ")[0])
            if res.startswith("CRASH") and not self._bad:
                self._bad = {"csv": text, "why": "read_codec_features_csv raised %s, not InvalidCodecFeaturesError" % res[6:]}
            elif val is not None and not self._bad:
                why = in_domain(val)
                if why:
                    self._bad = {"csv": text, "why": "returned configuration outside its documented domain: " + why}
        ctx.diff("cf sample-file mutants: outcome class and every returned field, model == real reader", lines, exp)
        # the int(str) contract on ASCII cells
        il, ie = [], []
        for c in BAD_CELLS + ["%s%s%s" % (rng.choice(["", " ", "+", "-", "\t"]), rng.choice(["0", "12", "1_2", "007", "9" * 30, "_", "1_", ""]), rng.choice(["", " ", "\n", "x"])) for _ in range(300)]:
            il.append("ci x" + c.encode("ascii").hex())
            try:
                ie.append(str(int(c)))
            except ValueError:
                ie.append("None")
        ctx.diff("ci int(str) on ASCII cell text: model pyInt == Python int", il, ie)
        # texts csv.reader rejects
        ctx.corr_names.append("raw malformed texts on the real reader: InvalidCodecFeaturesError or a result, nothing else")
        for what, text in MALFORMED_TEXTS:
            res, val = run_real(text)
            ctx.evaluations += 1
            ctx.count("raw:%s" % res.split(" ")[0])
            if res.startswith("CRASH") and not self._bad:
                self._bad = {"csv_description": what, "csv": text if len(text) < 500 else text[:80] + "...(%d chars)" % len(text),
                             "csv_repr_python": "'name,' + 'x' * 140000 + '\\n'" if "longer" in what else repr(text),
                             "why": "read_codec_features_csv raised %s, not InvalidCodecFeaturesError" % res[6:]}

    def findings(self, ctx):
        return [self._bad] if self._bad else []

    def search(self, ctx):
        rng = ctx.rng("search")
        samples = sample_rows()
        for what, text in MALFORMED_TEXTS:
            res, val = run_real(text)
            if res.startswith("CRASH"):
                return {"csv_description": what, "csv_repr_python": repr(text) if len(text) < 500 else "'name,' + 'x' * 140000 + '\\n'",
                        "why": "raised %s" % res[6:]}
        for _ in range(ctx.n(4000, 60000)):
            rows = mutate(rng, rng.choice(samples))
            try:
                text = render(rows)
            except csv.Error:
                continue
            res, val = run_real(text, rows)
            if res.startswith("CRASH"):
                return {"csv": text, "why": "raised %s, not InvalidCodecFeaturesError" % res[6:]}
            if val is not None:
                why = in_domain(val)
                if why:
                    return {"csv": text, "why": "returned configuration outside its documented domain: " + why}
                if len(val) != n_columns(rows):
                    return {"csv": text, "why": "the table has %d columns but %d configurations were returned (names %s): a column was silently dropped "
                                                "instead of the reader succeeding for every column or explaining" % (n_columns(rows), len(val), sorted(val))}
        return None

    def replay(self, ctx, path):
        with open(path) as f:
            r = json.load(f)
        fi = r.get("failing_input")
        if not fi:
            print("replay names broken obligations only:", r.get("broken_obligations"))
            return 1
        text = fi["csv"] if "csv_repr_python" not in fi else eval(fi["csv_repr_python"])  # noqa: S307 (our own literal)
        res, val = run_real(text)
        why = None
        if res.startswith("CRASH"):
            why = res
        elif val is not None:
            why = in_domain(val)
            if not why:
                rows = list(csv.reader(io.StringIO(text)))
                if len(val) != n_columns(rows):
                    why = "%d columns, %d configurations returned" % (n_columns(rows), len(val))
        print("replay ->", why or "property holds (%s)" % res.split(" ")[0])
        return 1 if why else 0


PROP = Prop()
