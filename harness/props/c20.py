"""C20 — bit-level readers and writers agree on every primitive."""
import itertools
from io import BytesIO

import kernels

FUNCS = ["exp_golomb_length", "signed_exp_golomb_length", "to_bit_offset", "from_bit_offset"]


def _err(e):
    from vc2_conformance.bitstream.exceptions import OutOfRangeError
    from vc2_conformance.decoder.exceptions import UnexpectedEndOfStream

    if isinstance(e, (EOFError, UnexpectedEndOfStream)):
        return "ERR:EOF"
    if isinstance(e, OutOfRangeError):
        return "ERR:OutOfRange"
    msg = str(e)
    if isinstance(e, ValueError) and "past the end of a bounded block" in msg:
        return "ERR:ZeroPastEnd"
    if type(e) is Exception and "nest" in msg:
        return "ERR:Nested"
    if type(e) is Exception and "Not in bounded" in msg:
        return "ERR:NotInBlock"
    if type(e) is Exception and "seek" in msg:
        return "ERR:SeekPastEnd"
    return "ERR:Other:%s" % type(e).__name__


def bits_str(ba):
    s = "".join("1" if b else "0" for b in ba)
    return s or "-"


def tell_str(t):
    return "%d.%d" % (t[0], t[1])


def run_rd(data, ops):
    from vc2_conformance.bitstream.io import BitstreamReader
    from bitarray import bitarray

    r = BitstreamReader(BytesIO(data))
    out = []
    for op in ops:
        a = op[1:]
        try:
            c = op[0]
            if c == "b":
                out.append(str(r.read_bit()))
            elif c == "n":
                out.append(str(r.read_nbits(int(a))))
            elif c == "l":
                out.append(str(r.read_uint_lit(int(a))))
            elif c == "a":
                out.append(bits_str(r.read_bitarray(int(a))))
            elif c == "y":
                by = r.read_bytes(int(a))
                ba = bitarray()
                ba.frombytes(by)
                out.append(bits_str(ba))
            elif c == "u":
                out.append(str(r.read_uint()))
            elif c == "s":
                out.append(str(r.read_sint()))
            elif c == "B":
                r.bounded_block_begin(int(a))
                out.append("ok")
            elif c == "E":
                out.append(str(r.bounded_block_end()))
            elif c == "t":
                out.append(tell_str(r.tell()))
            elif c == "k":
                x, y = a.split(".")
                r.seek(int(x), int(y))
                out.append("ok")
            elif c == "e":
                out.append("T" if r.is_end_of_stream() else "F")
            elif c == "r":
                out.append(str(r.bits_remaining))
            else:
                out.append("bad-op")
        except Exception as e:  # noqa
            out.append(_err(e))
            break
    return " ".join(out)


def run_dd(data, ops):
    from vc2_conformance.pseudocode.state import State
    from vc2_conformance.decoder import io as dio

    st = State()
    dio.init_io(st, BytesIO(data))
    st["bits_left"] = 0
    out = []
    for op in ops:
        try:
            if op == "bb":
                out.append(str(dio.read_bitb(st)))
            elif op == "ob":
                out.append("T" if dio.read_boolb(st) else "F")
            elif op == "ub":
                out.append(str(dio.read_uintb(st)))
            elif op == "sb":
                out.append(str(dio.read_sintb(st)))
            elif op[0] == "b":
                out.append(str(dio.read_bit(st)))
            elif op[0] == "o":
                out.append("T" if dio.read_bool(st) else "F")
            elif op[0] == "n":
                out.append(str(dio.read_nbits(st, int(op[1:]))))
            elif op[0] == "l":
                out.append(str(dio.read_uint_lit(st, int(op[1:]))))
            elif op[0] == "u":
                out.append(str(dio.read_uint(st)))
            elif op[0] == "s":
                out.append(str(dio.read_sint(st)))
            elif op[0] == "L":
                st["bits_left"] = int(op[1:])
                out.append("ok")
            elif op[0] == "f":
                dio.flush_inputb(st)
                out.append("ok")
            elif op[0] == "A":
                dio.byte_align(st)
                out.append("ok")
            elif op[0] == "t":
                out.append(tell_str(dio.tell(st)))
            elif op[0] == "e":
                out.append("T" if dio.is_end_of_stream(st) else "F")
            elif op[0] == "q":
                out.append(str(st["bits_left"]))
            else:
                out.append("bad-op")
        except Exception as e:  # noqa
            out.append(_err(e))
            break
    return " ".join(out)


def run_ws(ops):
    """the REAL BitstreamWriter on a program WITH seeks; the file content is compared as bytes"""
    from vc2_conformance.bitstream.io import BitstreamWriter

    f = BytesIO()
    w = BitstreamWriter(f)
    out = []
    for op in ops:
        a = op[1:]
        try:
            c = op[0]
            if c == "b":
                w.write_bit(int(a))
                out.append("ok")
            elif c == "n":
                k, v = a.split(",")
                w.write_nbits(int(k), int(v))
                out.append("ok")
            elif c == "u":
                w.write_uint(int(a))
                out.append("ok")
            elif c == "B":
                w.bounded_block_begin(int(a))
                out.append("ok")
            elif c == "E":
                out.append(str(w.bounded_block_end()))
            elif c == "k":
                by, bi = a.split(",")
                w.seek(int(by), int(bi))
                out.append("ok")
            elif c == "t":
                t = w.tell()
                out.append("%d.%d" % (t[0], t[1]))
            elif c == "r":
                out.append(str(w.bits_remaining))
            elif c == "f":
                w.flush()
                out.append("ok")
            else:
                out.append("bad-op")
        except Exception as e:  # noqa
            out.append(_err(e))
            break
    if out and out[-1] == "ERR:ZeroPastEnd":
        out.append("FILE:?")
    else:
        w.flush()
        out.append("FILE:" + f.getvalue().hex())
    return " ".join(out)


def rand_ws_prog(rng, with_bytes=False):
    """writes, tells and SEEKS (backwards and forwards, into the middle of bytes), inside and outside bounded blocks;
    `with_bytes`: byte strings too (oracle only: the seekable-writer model has no byte-string operation)"""
    ops = []
    pos = 0          # an estimate of the bit position, to aim the seeks near written data
    in_block = False
    for _ in range(rng.randrange(2, 12)):
        c = rng.random()
        if with_bytes and c < 0.12:
            nb = rng.randrange(0, 4)
            bs = [rng.choice([255, 255, 0, rng.randrange(256)]) for _ in range(rng.choice([nb, nb, max(0, nb - 1)]))]
            ops.append("y%d,%s" % (nb, ".".join(map(str, bs)) or "-"))
            pos += 8 * nb
        elif c < 0.25:
            k = rng.choice([1, 3, 8, 8, 13])
            ops.append("n%d,%d" % (k, rng.getrandbits(k)))
            pos += k
        elif c < 0.4:
            v = rng.choice([0, 0, 1, 2, 5, 100])
            ops.append("u%d" % v)
            pos += 2 * (v + 1).bit_length() - 1
        elif c < 0.5:
            ops.append("b%d" % rng.randrange(2))
            pos += 1
        elif c < 0.72:
            target = max(0, pos + rng.choice([-17, -9, -8, -3, -1, 0, 0, 1, 4, 8, 20]))
            ops.append("k%d,%d" % (target // 8, 7 - target % 8))
            pos = target
        elif c < 0.8:
            ops.append("t")
        elif c < 0.86:
            ops.append("r")
        elif c < 0.9:
            ops.append("f")
        elif not in_block:
            ops.append("B%d" % rng.choice([0, 1, 4, 8, 12, 16, 30, -3]))
            in_block = True
        else:
            ops.append("E")
            in_block = False
    ops.append("t")
    return ops


def violates_ws(ops):
    """bounded blocks by POSITION, on the real BitstreamWriter with seeks: a block begun at bit offset S with length L
    ends at S+L wherever seeks go; a 0 bit is refused exactly when it would lie at or beyond S+L; the position advances
    by the bits written before the end; outside a block every bit is written and counted"""
    from vc2_conformance.bitstream.io import BitstreamWriter, to_bit_offset

    f = BytesIO()
    w = BitstreamWriter(f)
    block = None   # (S, L)
    for i, op in enumerate(ops):
        c, a = op[0], op[1:]
        P = to_bit_offset(*w.tell())
        bits = None
        try:
            if c == "b":
                bits = [int(a)]
                w.write_bit(int(a))
            elif c == "n":
                k, v = (int(x) for x in a.split(","))
                bits = [(v >> (k - 1 - j)) & 1 for j in range(k)]
                w.write_nbits(k, v)
            elif c == "u":
                bits = [1 if ch == "1" else 0 for ch in bits_str_of_uint(int(a))]
                w.write_uint(int(a))
            elif c == "y":
                k, v = a.split(",")
                bs = [int(x) for x in v.split(".")] if v != "-" else []
                bs = bs + [0] * (int(k) - len(bs))
                bits = [(b >> (7 - j)) & 1 for b in bs for j in range(8)]
                w.write_bytes(int(k), bytes(bs))
            elif c == "B":
                w.bounded_block_begin(int(a))
                block = (P, int(a))
            elif c == "E":
                w.bounded_block_end()
                block = None
            elif c == "k":
                by, bi = (int(x) for x in a.split(","))
                w.seek(by, bi)
                if to_bit_offset(*w.tell()) != to_bit_offset(by, bi):
                    return "op %d (%s): tell() after seek is %s" % (i, op, w.tell())
            elif c == "f":
                w.flush()
            raised = None
        except Exception as e:  # noqa
            raised = _err(e)
        if bits is not None:
            end = None if block is None else block[0] + max(0, block[1])   # a negative length is an already exhausted block
            zero_past = end is not None and any(b == 0 and P + j >= end for j, b in enumerate(bits))
            if raised == "ERR:ZeroPastEnd" and not zero_past:
                return "op %d (%s) at bit %d: a 0 bit inside the block (which ends at bit %s) was refused" % (i, op, P, end)
            if raised is None and zero_past and P <= end:
                return "op %d (%s) at bit %d: a 0 bit beyond the end of the block (bit %s) was accepted" % (i, op, P, end)
            if raised is None:
                written = len(bits) if end is None else max(0, min(len(bits), end - P))
                if to_bit_offset(*w.tell()) != P + written:
                    return "op %d (%s) at bit %d: position advanced to %d, expected %d" % (i, op, P, to_bit_offset(*w.tell()), P + written)
        if raised is not None:
            return None  # the program stops at the first error, as in run_ws
    return None


def rand_rs_prog(rng):
    """reads, tells and SEEKS on the reader, inside bounded blocks too - also after the block's end has been passed"""
    ops = []
    pos = 0
    in_block = False
    for _ in range(rng.randrange(2, 12)):
        c = rng.random()
        if c < 0.35:
            k = rng.choice([1, 2, 3, 6, 8, 13])
            ops.append("n%d" % k)
            pos += k
        elif c < 0.45:
            ops.append("b")
            pos += 1
        elif c < 0.7:
            target = max(0, pos + rng.choice([-17, -9, -8, -3, -1, 0, 0, 1, 2, 4, 8, 11, 20]))
            ops.append("k%d,%d" % (target // 8, 7 - target % 8))
            pos = target
        elif c < 0.78:
            ops.append("t")
        elif c < 0.84:
            ops.append("r")
        elif not in_block:
            ops.append("B%d" % rng.choice([0, 1, 4, 4, 8, 12, 16, 30, -2]))
            in_block = True
        else:
            ops.append("E")
            in_block = False
    return ops


def violates_rs(data, ops):
    """bounded blocks by POSITION, on the real BitstreamReader with seeks: inside a block begun at bit offset S with
    length L the file position never passes S+max(0,L) - by reading (bits past the end read as 1 and consume nothing) or by
    seeking (a seek beyond the end is refused); a successful seek lands on its target; before the end, bits_remaining is
    the distance to the end; the bits delivered are the file's bits at the positions read"""
    from vc2_conformance.bitstream.io import BitstreamReader, to_bit_offset

    r = BitstreamReader(BytesIO(data))
    nbits = len(data) * 8
    allbits = [(data[i // 8] >> (7 - i % 8)) & 1 for i in range(nbits)]
    block = None
    for i, op in enumerate(ops):
        c, a = op[0], op[1:]
        P = to_bit_offset(*r.tell())
        end = None if block is None else block[0] + max(0, block[1])
        try:
            if c in "bn":
                k = 1 if c == "b" else int(a)
                v = r.read_bit() if c == "b" else r.read_nbits(k)
                avail = k if end is None else max(0, min(k, end - P))
                want = 0
                for j in range(k):
                    bit = 1
                    if j < avail:
                        bit = allbits[P + j] if P + j < nbits else 1
                    want = (want << 1) | bit
                if int(v) != want and P + avail <= nbits:
                    return "op %d (%s) at bit %d: read %d, the file (and 1s past the block end %s) gives %d" % (i, op, P, int(v), end, want)
                if to_bit_offset(*r.tell()) != min(P + avail, max(nbits, P)) and P + avail <= nbits:
                    return "op %d (%s) at bit %d: position advanced to %d, expected %d" % (i, op, P, to_bit_offset(*r.tell()), P + avail)
            elif c == "B":
                r.bounded_block_begin(int(a))
                block = (P, int(a))
            elif c == "E":
                r.bounded_block_end()
                block = None
            elif c == "k":
                by, bi = (int(x) for x in a.split(","))
                r.seek(by, bi)
                T = to_bit_offset(by, bi)
                if to_bit_offset(*r.tell()) != T:
                    return "op %d (%s): tell() after seek is %s" % (i, op, r.tell())
                if end is not None and T > end:
                    return "op %d (%s) at bit %d: a seek beyond the end of the bounded block (bit %d) was accepted" % (i, op, P, end)
            elif c == "r":
                br = r.bits_remaining
                if end is not None and P < end and br != end - P:
                    return "op %d: bits_remaining is %s at bit %d of a block ending at bit %d" % (i, br, P, end)
                if end is None and br is not None:
                    return "op %d: bits_remaining is %s outside a block" % (i, br)
        except Exception as e:  # noqa
            return None   # the program stops at the first error
        if end is not None and block is not None and to_bit_offset(*r.tell()) > end and c != "B":
            return "op %d (%s): the file position %d passed the end of the bounded block (bit %d)" % (i, op, to_bit_offset(*r.tell()), end)
    return None


def bits_str_of_uint(v):
    m = v + 1
    out = ""
    for i in range(m.bit_length() - 2, -1, -1):
        out += "0" + str((m >> i) & 1)
    return out + "1"


def run_wr(ops):
    from vc2_conformance.bitstream.io import BitstreamWriter
    from bitarray import bitarray

    f = BytesIO()
    w = BitstreamWriter(f)
    out = []
    for op in ops:
        a = op[1:]
        try:
            c = op[0]
            if c == "b":
                w.write_bit(int(a))
                out.append("ok")
            elif c == "n":
                k, v = a.split(",")
                w.write_nbits(int(k), int(v))
                out.append("ok")
            elif c == "l":
                k, v = a.split(",")
                w.write_uint_lit(int(k), int(v))
                out.append("ok")
            elif c == "a":
                k, v = a.split(",")
                w.write_bitarray(int(k), bitarray("" if v == "-" else v))
                out.append("ok")
            elif c == "y":
                k, v = a.split(",")
                w.write_bytes(int(k), bytes(int(x) for x in v.split(".")) if v != "-" else b"")
                out.append("ok")
            elif c == "u":
                w.write_uint(int(a))
                out.append("ok")
            elif c == "s":
                w.write_sint(int(a))
                out.append("ok")
            elif c == "B":
                w.bounded_block_begin(int(a))
                out.append("ok")
            elif c == "E":
                out.append(str(w.bounded_block_end()))
            elif c == "t":
                out.append(tell_str(w.tell()))
            elif c == "r":
                out.append(str(w.bits_remaining))
            else:
                out.append("bad-op")
        except Exception as e:  # noqa
            out.append(_err(e))
            break
    if out and out[-1] == "ERR:ZeroPastEnd":
        out.append("OUT:?")  # partially written primitive: not compared
    else:
        w.flush()
        ba = bitarray()
        ba.frombytes(f.getvalue())
        out.append("OUT:" + bits_str(ba))
    return " ".join(out)


def hexs(data):
    return data.hex() if data else "-"


def rand_value(rng):
    k = rng.choice([0, 1, 2, 3, 4, 7, 8, 9, 16, 31, 32, 33, 64, 70, 130])
    return rng.getrandbits(k) if k else 0


def rand_rd_prog(rng, nbytes):
    ops = []
    in_block = False
    for _ in range(rng.randrange(1, 9)):
        c = rng.random()
        if c < 0.12 and not in_block:
            ops.append("B%d" % rng.choice([-2, -1, 0, 1, 2, 3, 5, 8, 9, 13, 20]))
            in_block = True
        elif c < 0.2 and in_block:
            ops.append("E")
            in_block = False
        elif c < 0.3:
            ops.append("t")
        elif c < 0.38:
            ops.append("k%d.%d" % (rng.randrange(0, nbytes + 2), rng.randrange(0, 8)))
        elif c < 0.42:
            ops.append("e")
        elif c < 0.46:
            ops.append("r")
        elif c < 0.47:
            ops.append(rng.choice(["B3", "E"]))  # nesting / not-in-block errors
            if ops[-1] == "B3" and not in_block:
                in_block = True
            elif ops[-1] == "E" and in_block:
                in_block = False
        else:
            ops.append(rng.choice(["b", "u", "s", "s", "u", "n%d" % rng.randrange(0, 12), "l%d" % rng.randrange(0, 3),
                                   "a%d" % rng.randrange(0, 12), "y%d" % rng.randrange(0, 3)]))
    ops.append("t")
    return ops


def rand_dd_prog(rng):
    ops = []
    for _ in range(rng.randrange(1, 9)):
        c = rng.random()
        if c < 0.15:
            ops.append("L%d" % rng.choice([0, 0, 1, 2, 3, 5, 8, 9, 13, 20]))
        elif c < 0.25:
            ops.append("t")
        elif c < 0.3:
            ops.append("f")
        elif c < 0.35:
            ops.append("A")
        elif c < 0.4:
            ops.append("q")
        else:
            ops.append(rng.choice(["b", "o", "u", "s", "bb", "ob", "ub", "sb", "sb", "ub", "n%d" % rng.randrange(0, 12),
                                   "l%d" % rng.randrange(0, 3), "e"]))
    ops += ["q", "t"]
    return ops


def rand_wr_prog(rng):
    ops = []
    in_block = False
    for _ in range(rng.randrange(1, 8)):
        c = rng.random()
        if c < 0.12 and not in_block:
            ops.append("B%d" % rng.choice([-1, 0, 1, 2, 3, 5, 8, 13, 40]))
            in_block = True
        elif c < 0.2 and in_block:
            ops.append("E")
            in_block = False
        elif c < 0.28:
            ops.append("t")
        elif c < 0.3:
            ops.append("r")
        else:
            v = rand_value(rng)
            k = rng.choice([0, 1, 3, 8, 9, 16, 33, 64, 131])
            kind = rng.choice(["b", "n", "l", "a", "u", "s", "s", "u", "y", "y"])
            if kind == "b":
                ops.append("b%d" % rng.randrange(2))
            elif kind == "n":
                vv = v if rng.random() < 0.7 else rng.getrandbits(max(k, 1))
                ops.append("n%d,%d" % (rng.choice([k, k, -1]), rng.choice([vv, vv, vv, -vv])))
            elif kind == "l":
                kb = rng.randrange(0, 4)
                ops.append("l%d,%d" % (kb, rng.getrandbits(8 * kb + rng.choice([0, 0, 0, 1]))))
            elif kind == "a":
                n = rng.randrange(0, 14)
                ops.append("a%d,%s" % (rng.choice([n, n, n + 3, max(0, n - 1)]),
                                       "".join(rng.choice("01") for _ in range(n)) or "-"))
            elif kind == "y":
                # byte strings, also inside bounded blocks (aligned or not), mostly 0xFF / 0x00 bytes near a block's end
                nb = rng.randrange(0, 4)
                bs = [rng.choice([255, 255, 0, rng.randrange(256)]) for _ in range(rng.choice([nb, nb, nb, nb + 1, max(0, nb - 1)]))]
                ops.append("y%d,%s" % (nb, ".".join(map(str, bs)) or "-"))
            elif kind == "u":
                ops.append("u%d" % rng.choice([v, v, v, -v - 1]))
            else:
                ops.append("s%d" % rng.choice([v, -v]))
    ops.append("t")
    return ops


def violates_roundtrip(values_u, values_s):
    """Property predicate on the REAL code: write a sequence, read it back with both readers."""
    from vc2_conformance.bitstream.io import BitstreamReader, BitstreamWriter, to_bit_offset
    from vc2_conformance.bitstream.exp_golomb import exp_golomb_length, signed_exp_golomb_length
    from vc2_conformance.pseudocode.state import State
    from vc2_conformance.decoder import io as dio

    try:
        f = BytesIO()
        w = BitstreamWriter(f)
        positions = []
        for v in values_u:
            before = to_bit_offset(*w.tell())
            w.write_uint(v)
            after = to_bit_offset(*w.tell())
            if after - before != exp_golomb_length(v):
                return "exp_golomb_length(%d)=%d but %d bits written" % (v, exp_golomb_length(v), after - before)
            positions.append(after)
        for v in values_s:
            before = to_bit_offset(*w.tell())
            w.write_sint(v)
            after = to_bit_offset(*w.tell())
            if after - before != signed_exp_golomb_length(v):
                return "signed_exp_golomb_length(%d)=%d but %d bits written" % (v, signed_exp_golomb_length(v), after - before)
            positions.append(after)
        w.flush()
        data = f.getvalue()
        r = BitstreamReader(BytesIO(data))
        st = State()
        dio.init_io(st, BytesIO(data))
        i = 0
        for v in values_u:
            a, b = r.read_uint(), dio.read_uint(st)
            if a != v or b != v:
                return "wrote uint %d, readers returned %d / %d" % (v, a, b)
            if to_bit_offset(*r.tell()) != positions[i] or to_bit_offset(*dio.tell(st)) != positions[i]:
                return "position after uint %d differs" % v
            i += 1
        for v in values_s:
            a, b = r.read_sint(), dio.read_sint(st)
            if a != v or b != v:
                return "wrote sint %d, readers returned %d / %d" % (v, a, b)
            if to_bit_offset(*r.tell()) != positions[i] or to_bit_offset(*dio.tell(st)) != positions[i]:
                return "position after sint %d differs" % v
            i += 1
    except Exception as e:  # noqa
        return "raised %s: %s" % (type(e).__name__, e)
    return None


def violates_fixed_width(n, v):
    """write_nbits/write_uint_lit/write_bitarray/write_bytes: in range -> read back identically by both
    readers; out of range -> OutOfRangeError and nothing written (REAL code)."""
    from vc2_conformance.bitstream.io import BitstreamReader, BitstreamWriter, to_bit_offset
    from vc2_conformance.bitstream.exceptions import OutOfRangeError
    from vc2_conformance.pseudocode.state import State
    from vc2_conformance.decoder import io as dio
    from bitarray import bitarray

    try:
        for name in ("nbits", "uint_lit", "bitarray", "bytes"):
            if name == "uint_lit" and n % 8:
                continue
            if name == "bytes" and n % 8:
                continue
            f = BytesIO()
            w = BitstreamWriter(f)
            in_range = 0 <= v < (1 << n)
            if name in ("bitarray", "bytes"):
                # a value that is one element too long must be rejected
                in_range = True
            try:
                if name == "nbits":
                    w.write_nbits(n, v)
                elif name == "uint_lit":
                    w.write_uint_lit(n // 8, v)
                elif name == "bitarray":
                    bits = bitarray([(abs(v) >> i) & 1 for i in range(n)])
                    w.write_bitarray(n, bits)
                else:
                    by = (abs(v) % (1 << n)).to_bytes(n // 8, "big")
                    w.write_bytes(n // 8, by)
                raised = False
            except OutOfRangeError:
                raised = True
            pos = to_bit_offset(*w.tell())
            w.flush()
            if in_range and raised:
                return "write_%s(%d, %d) raised OutOfRangeError for an in-range value" % (name, n, v)
            if not in_range:
                if not raised:
                    return "write_%s(%d, %d): out-of-range value accepted; wrote %d bits" % (name, n, v, pos)
                if pos != 0 or f.getvalue() not in (b"",):
                    return "write_%s(%d, %d): bits written before the range error" % (name, n, v)
                continue
            if pos != n:
                return "write_%s(%d, %d) advanced %d bits" % (name, n, v, pos)
            data = f.getvalue()
            r = BitstreamReader(BytesIO(data))
            st = State()
            dio.init_io(st, BytesIO(data))
            if name in ("nbits", "uint_lit"):
                a = r.read_nbits(n) if name == "nbits" else r.read_uint_lit(n // 8)
                b = dio.read_nbits(st, n) if name == "nbits" else dio.read_uint_lit(st, n // 8)
                if a != v or b != v:
                    return "wrote %s %d in %d bits, readers returned %d / %d" % (name, v, n, a, b)
                if to_bit_offset(*r.tell()) != n or to_bit_offset(*dio.tell(st)) != n:
                    return "position after %s differs" % name
            elif name == "bitarray":
                a = r.read_bitarray(n)
                if a != bits:
                    return "bitarray %s read back as %s" % (bits, a)
            else:
                a = r.read_bytes(n // 8)
                if a != by:
                    return "bytes %r read back as %r" % (by, a)
        # too-long sequences
        for name in ("bitarray", "bytes"):
            f = BytesIO()
            w = BitstreamWriter(f)
            try:
                if name == "bitarray":
                    w.write_bitarray(n, bitarray([1] * (n + 1)))
                else:
                    w.write_bytes(n // 8, b"\xff" * (n // 8 + 1))
                return "write_%s accepted a value longer than %d" % (name, n)
            except OutOfRangeError:
                pass
    except Exception as e:  # noqa
        return "raised %s: %s" % (type(e).__name__, e)
    return None


def violates_readers_agree(data, length, n_reads=3):
    """Both readers on the same bit string inside a bounded block of `length` >= 0 bits."""
    from vc2_conformance.bitstream.io import BitstreamReader, to_bit_offset
    from vc2_conformance.pseudocode.state import State
    from vc2_conformance.decoder import io as dio

    def one(kind):
        res = []
        try:
            if kind == "bs":
                r = BitstreamReader(BytesIO(data))
                r.bounded_block_begin(length)
                for _ in range(n_reads):
                    res.append(r.read_sint())
                res.append(("pos", to_bit_offset(*r.tell())))
            else:
                st = State()
                dio.init_io(st, BytesIO(data))
                st["bits_left"] = length
                for _ in range(n_reads):
                    res.append(dio.read_sintb(st))
                res.append(("pos", to_bit_offset(*dio.tell(st))))
        except Exception as e:  # noqa
            res.append(_err(e))
        return res

    a, b = one("bs"), one("dd")
    if a != b:
        return "bitstream reader %s vs decoder reader %s" % (a, b)
    return None


def violates_eos(data, k):
    """after k single-bit reads both readers are at the end of the stream exactly when k >= 8 * len(data) - whatever the
    bytes are - and report the same position"""
    from vc2_conformance.bitstream.io import BitstreamReader, to_bit_offset
    from vc2_conformance.pseudocode.state import State
    from vc2_conformance.decoder import io as dio

    want = k >= 8 * len(data)
    r = BitstreamReader(BytesIO(data))
    st = State()
    dio.init_io(st, BytesIO(data))
    try:
        for _ in range(k):
            r.read_bit()
            dio.read_bit(st)
        got = (r.is_end_of_stream(), dio.is_end_of_stream(st), to_bit_offset(*r.tell()), to_bit_offset(*dio.tell(st)))
    except Exception as e:  # noqa
        return "%d bit reads on %d bytes raise %s" % (k, len(data), _err(e))
    if got != (want, want, k, k):
        return ("after %d of %d bits: (BitstreamReader.is_end_of_stream, decoder is_end_of_stream, tells) = %s, expected %s"
                % (k, 8 * len(data), got, (want, want, k, k)))
    return None


class Prop(object):
    id = "C20"
    lean_modules = ["VC2.Props.C20"]
    status = "full"
    anchored_functions = FUNCS + ["io."]
    rule = ("programs of primitive reads/writes/seeks/tells/bounded blocks run on the real BitstreamReader, BitstreamWriter "
            "and decoder reader and on the Lean model; exhaustive: every 1-byte and a family of 2-byte strings x block lengths -2..14 x "
            "fixed read programs; random: seeded programs over random bytes. Distinct = distinct op lines; non-trivial = at least one "
            "successful primitive before any error")
    trusted = ["hand-written model lean/VC2/Model/BitIO.lean tied to the code by this correspondence",
               "translator T1 for exp_golomb_length / signed_exp_golomb_length / to_bit_offset / from_bit_offset",
               "bitarray, BytesIO"]
    assumptions = ["BitstreamWriter.seek is not modelled (append-only writer); reader seek is",
                   "files are whole bytes; `_recorded_bytes` logging is not part of this model"]

    def correspond(self, ctx):
        kernels.self_check(ctx, FUNCS)
        rng = ctx.rng("io")
        nontriv = lambda l, e: not e.startswith("ERR") and not e.startswith("bad")  # noqa
        # ---- exhaustive small scope
        lines, exp = [], []
        strings = [bytes([a]) for a in range(256)]
        if ctx.thorough:
            strings += [bytes([a, b]) for a in range(256) for b in range(256)]
        else:
            strings += [bytes([a, b]) for a in range(256) for b in (0x00, 0xFF, 0xA5)]
        for data in strings:
            for L in range(-2, 15):
                for prog in (["B%d" % L, "s", "s", "s", "r", "E", "t"], ["B%d" % L, "u", "b", "r", "t"]):
                    lines.append("rd %s %s" % (hexs(data), " ".join(prog)))
                    exp.append(run_rd(data, prog))
                if L >= 0:
                    prog = ["L%d" % L, "sb", "sb", "sb", "q", "t"]
                    lines.append("dd %s %s" % (hexs(data), " ".join(prog)))
                    exp.append(run_dd(data, prog))
        ctx.count("io:exhaustive-lines", len(lines))
        ctx.diff("io exhaustive (bit strings x block lengths) model == BitstreamReader/decoder reader", lines, exp, nontriv)
        # ---- random programs
        lines, exp = [], []
        for i in range(ctx.n(4000, 80000)):
            nbytes = rng.choice([0, 1, 2, 3, 4, 6, 9])
            data = bytes(rng.getrandbits(8) if rng.random() < 0.7 else rng.choice([0, 255]) for _ in range(nbytes))
            prog = rand_rd_prog(rng, nbytes)
            lines.append("rd %s %s" % (hexs(data), " ".join(prog)))
            exp.append(run_rd(data, prog))
            prog = rand_dd_prog(rng)
            lines.append("dd %s %s" % (hexs(data), " ".join(prog)))
            exp.append(run_dd(data, prog))
            prog = rand_wr_prog(rng)
            lines.append("wr %s" % " ".join(prog))
            exp.append(run_wr(prog))
        for e in exp:
            k = [t for t in e.split() if t.startswith("ERR")]
            ctx.count("io:random:%s" % (k[0] if k else "no-error"))
        ctx.diff("io random programs model == real readers/writer", lines, exp, nontriv)
        # ---- the writer with seeks (file content as bytes, tell, bounded-block accounting)
        lines, exp = [], []
        for i in range(ctx.n(3000, 40000)):
            prog = rand_ws_prog(rng)
            lines.append("ws %s" % " ".join(prog))
            exp.append(run_ws(prog))
            why = violates_ws(prog)
            if why and not getattr(self, "_wsbad", None):
                self._wsbad = {"kind": "seek-writer", "ops": prog, "why": why}
        for e in exp:
            k = [t for t in e.split() if t.startswith("ERR")]
            ctx.count("io:seek-writer:%s" % (k[0] if k else "no-error"))
        ctx.diff("io writer programs WITH seeks: results, tell, bits_remaining and file bytes, model == real BitstreamWriter", lines, exp, nontriv)

    def findings(self, ctx):
        return [self._wsbad] if getattr(self, "_wsbad", None) else []

    def search(self, ctx):
        rng = ctx.rng("search")
        for i in range(ctx.n(8000, 60000)):
            prog = rand_ws_prog(rng, with_bytes=(i % 2 == 1))
            why = violates_ws(prog)
            if why:
                return {"kind": "seek-writer", "ops": prog, "why": why}
        for _ in range(ctx.n(6000, 60000)):
            data = bytes(rng.getrandbits(8) for _ in range(rng.choice([2, 4, 6])))
            prog = rand_rs_prog(rng)
            why = violates_rs(data, prog)
            if why:
                return {"kind": "seek-reader", "data": data.hex(), "ops": prog, "why": why}
        for v in range(0, 300):
            why = violates_roundtrip([v], [v, -v])
            if why:
                return {"kind": "roundtrip", "uints": [v], "sints": [v, -v], "why": why}
        for _ in range(ctx.n(3000, 30000)):
            us = [rand_value(rng) for _ in range(rng.randrange(0, 4))]
            ss = [rng.choice([-1, 1]) * rand_value(rng) for _ in range(rng.randrange(0, 4))]
            why = violates_roundtrip(us, ss)
            if why:
                return {"kind": "roundtrip", "uints": us, "sints": ss, "why": why}
        for n in list(range(0, 34)) + [40, 48, 64, 65, 128]:
            for v in sorted(set([-1, 0, 1, (1 << n) - 1, (1 << n), (1 << n) + 1, (1 << n) >> 1, rng.getrandbits(n + 1)])):
                why = violates_fixed_width(n, v)
                if why:
                    return {"kind": "fixed_width", "n": n, "v": v, "why": why}
        for data in [b"", b"\x00", b"\xff", b"\x00\x00", b"\xff\x00", b"\x00\xff", b"\x01\x80\x00", bytes(rng.getrandbits(8) for _ in range(3))]:
            for k in range(0, 8 * len(data) + 1):
                why = violates_eos(data, k)
                if why:
                    return {"kind": "end-of-stream", "data": data.hex(), "bits_read": k, "why": why}
        for a in range(256):
            for b in (0, 255, 0xA5, 0x5A):
                for L in range(0, 18):
                    why = violates_readers_agree(bytes([a, b]), L)
                    if why:
                        return {"kind": "readers", "data": bytes([a, b]).hex(), "length": L, "why": why}
        return None

    def replay(self, ctx, path):
        import json

        with open(path) as f:
            r = json.load(f)
        fi = r.get("failing_input")
        if not fi:
            print("replay names broken obligations only:", r.get("broken_obligations"))
            return 1
        if fi["kind"] == "fixed_width":
            why = violates_fixed_width(fi["n"], fi["v"])
        elif fi["kind"] == "roundtrip":
            why = violates_roundtrip(fi["uints"], fi["sints"])
        elif fi["kind"] == "seek-writer":
            why = violates_ws(fi["ops"])
        elif fi["kind"] == "seek-reader":
            why = violates_rs(bytes.fromhex(fi["data"]), fi["ops"])
        else:
            why = violates_readers_agree(bytes.fromhex(fi["data"]), fi["length"])
        print("replay %s -> %s" % (fi, why or "property holds"))
        return 1 if why else 0


PROP = Prop()
