"""C10 — concatenated sequences are validated and decoded independently."""
import json

import streams as S
from props.c18 import toks_of

DOTSTAR = ".*"


def gen_sequence(rng, bad=False):
    """one sequence (tokens incl. the leading per-sequence configuration token), conformant unless `bad`"""
    prof = rng.choice(["hq", "ld"])
    pcm = rng.choice([0, 1])
    use_frags = rng.random() < 0.5
    n = rng.choice([0, 0, 6, 4294967294, 100])
    npics = rng.choice([0, 1, 2, 3]) * (2 if pcm == 1 else 1)
    if pcm == 1 and n % 2:
        n += 1
    body = ["H0"]
    for i in range(npics):
        num = (n + i) % 4294967296
        if rng.random() < 0.2:
            body.append(rng.choice(["A0", "A3", "Z0", "Z4", "H0"]))
        if use_frags and rng.random() < 0.7:
            body.append("F%d" % num)
            if rng.random() < 0.5:
                body += ["D%d.1.0.0" % num, "D%d.1.1.0" % num]
            else:
                body += ["D%d.2.0.0" % num]
        else:
            body.append("P%d" % num)
    body.append("E")
    has_frag = any(t[0] in "FD" for t in body)
    mv = "-"
    if rng.random() < 0.3:
        mv = "3" if (has_frag or npics == 0) else "-"
    kind = "ok"
    if bad:
        kind = rng.choice(["version", "number", "incomplete", "noeos", "interleave", "offset", "header", "odd"])
        if kind == "version":
            if has_frag or npics == 0:
                body = ["H0", "P%d" % n] + (["P%d" % ((n + 1) % 4294967296)] if pcm == 1 else []) + ["E"]
            mv = "3"
        elif kind == "number" and npics >= 1:
            body.insert(-1, "P%d" % ((n + npics + 1) % 4294967296))
        elif kind == "incomplete":
            body = body[:-1] + ["F%d" % ((n + npics) % 4294967296), "D%d.1.0.0" % ((n + npics) % 4294967296), "E"]
            if mv != "-":
                mv = "3"
        elif kind == "noeos":
            body = body[:-1]
        elif kind == "interleave":
            k = (n + npics) % 4294967296
            body = body[:-1] + ["F%d" % k, "P%d" % ((k + 1) % 4294967296), "E"]
        elif kind == "offset":
            body[-1] = "E:pw"
        elif kind == "header":
            body.insert(-1, "H1")
        elif kind == "odd":
            body.insert(-1, "P%d" % ((n + npics) % 4294967296))  # odd count for fields, fine for frames
        else:
            body.insert(1, "D%d.1.0.0" % n)
    return ["C%s.%s.%s" % (prof, pcm, mv)] + body, kind


def run_real(hist, pattern=DOTSTAR):
    data, flat, versions = S.build(S.Config(), hist)
    pics = []
    res = S.validate(data, level_pattern=pattern, collect=pics)
    return res, pics, flat, data


def join(seqs):
    out = []
    for i, s in enumerate(seqs):
        if i:
            out.append("/")
        out += s
    return out


def violates(seqs):
    """the property on the REAL validator: the verdict and pictures of the concatenation are what the
    sequences give alone (up to and including the first rejected one)"""
    alone = []
    for s in seqs:
        res, pics, _, _ = run_real(s)
        alone.append((res, pics))
    res, pics, _, data = run_real(join(seqs))
    want_res, want_pics = "OK", []
    for r, p in alone:
        want_pics += p
        if r != "OK":
            want_res = r
            break
    if want_res == "UnexpectedEndOfStream" and len(seqs) > 1:
        # a sequence without end-of-sequence swallows the next one: not a list of sequences
        return None
    if (res, pics) != (want_res, want_pics):
        return {"sequences": seqs, "concatenated": [res, pics], "alone": alone, "bytes": data.hex(),
                "why": "concatenation gives %s %s, the sequences alone give %s %s" % (res, pics, want_res, want_pics)}
    return None


_LEVEL_POOL = None


def level_pool():
    """header-only sequences ([sequence header, end of sequence]) for every (level, base format, coding mode) the REAL
    level table lists, serialised by the real serialiser, each with its verdict when validated alone"""
    global _LEVEL_POOL
    if _LEVEL_POOL is not None:
        return _LEVEL_POOL
    import copy
    from io import BytesIO
    from props import c15
    from vc2_conformance.bitstream import Stream, Sequence, DataUnit, ParseInfo, autofill_and_serialise_stream
    from vc2_conformance.encoder.sequence_header import make_sequence_header
    from vc2_conformance.level_constraints import LEVEL_CONSTRAINTS
    from vc2_conformance.constraint_table import AnyValue
    from vc2_data_tables import ParseCodes

    pool = []
    for cf in c15.level_formats():
        try:
            header = make_sequence_header(cf)
        except Exception:  # noqa  - the encoder refuses the combination
            continue
        versions = set()
        for col in LEVEL_CONSTRAINTS:
            if int(cf["level"]) in col["level"] and not isinstance(col["major_version"], AnyValue):
                versions |= set(col["major_version"].iter_values())
        if versions:
            header["parse_parameters"]["major_version"] = min(versions)
        f = BytesIO()
        autofill_and_serialise_stream(f, Stream(sequences=[Sequence(data_units=[
            DataUnit(parse_info=ParseInfo(parse_code=ParseCodes.sequence_header), sequence_header=copy.deepcopy(header)),
            DataUnit(parse_info=ParseInfo(parse_code=ParseCodes.end_of_sequence))])]))
        data = f.getvalue()
        pics = []
        res = S.validate(data, collect=pics)
        pool.append({"level": int(cf["level"]), "base": int(header["base_video_format"]), "pcm": int(cf["picture_coding_mode"]),
                     "bytes": data, "alone": (res, pics)})
    _LEVEL_POOL = pool
    return pool


def violates_bytes(items):
    """compositionality on the REAL validator for sequences given as bytes with their verdicts alone"""
    data = b"".join(it["bytes"] for it in items)
    pics = []
    res = S.validate(data, collect=pics)
    want_res, want_pics = "OK", []
    for it in items:
        r, p = it["alone"]
        want_pics += p
        if r != "OK":
            want_res = r
            break
    if (res, pics) != (want_res, want_pics):
        return {"level_sequences": [[it["level"], it["base"], it["pcm"], it["alone"][0]] for it in items], "bytes": data.hex(),
                "concatenated": [res, pics],
                "why": "sequences of levels %s: concatenation gives %s %s, the sequences alone give %s %s" % (
                    [it["level"] for it in items], res, pics, want_res, want_pics)}
    return None


def level_cases(rng, n):
    pool = level_pool()
    ok = [it for it in pool if it["alone"][0] == "OK"]
    out = []
    # every ordered pair of individually conformant sequences of DIFFERENT level-table rows, then random longer lists
    for a in ok:
        for b in ok:
            if (a["level"], a["base"], a["pcm"]) != (b["level"], b["base"], b["pcm"]):
                out.append([a, b])
    rng.shuffle(out)
    out = out[:n]
    for _ in range(n // 4):
        out.append([rng.choice(pool) for _ in range(rng.choice([3, 4]))])
    return out


DIRECTED = [
    # a sequence needing version 3 (fragments) must not relax the version bound of the next one
    [["Chq.0.-", "H0", "F0", "D0.2.0.0", "E"], ["Chq.0.3", "H0", "P0", "E"]],
    [["Chq.0.3", "H0", "P0", "E"], ["Chq.0.-", "H0", "F0", "D0.2.0.0", "E"]],
    # picture numbering, field parity, fragment progress and header identity restart
    [["Chq.0.-", "H0", "P7", "E"], ["Chq.0.-", "H0", "P3", "E"]],
    [["Chq.1.-", "H0", "P0", "P1", "E"], ["Chq.0.-", "H0", "P1", "E"]],
    [["Chq.0.-", "H0", "P7", "E"], ["Cld.0.-", "H0", "P3", "P4", "E"]],
    [["Chq.0.-", "H0", "F0", "D0.1.0.0", "E"], ["Chq.0.-", "H0", "D0.1.1.0", "E"]],
    [["Chq.0.-", "H0", "E"], ["Chq.0.-", "H1", "E"], ["Cld.1.-", "H0", "E"]],
    [["Cld.0.-", "H0", "P1", "E"], ["Chq.0.-", "H0", "X0", "E"]],
]


class Prop(object):
    id = "C10"
    lean_modules = ["VC2.Props.C10"]
    status = "full"
    rule = ("lists of 1-4 sequences drawn from different configurations (profile, frame/field coding, major version auto/3, pictures/fragments, "
            "padding/aux/repeated headers, picture numbers incl. wrap-around), with a non-conformant sequence (8 kinds) at a random position in a third of them, "
            "rendered to bytes by the REAL serialiser; compared: (a) model verdict+decoded numbers == real validator on the concatenation, "
            "(b) on the REAL validator alone: concatenation == composition of the sequences validated alone; (c) the same for header-only sequences of every row of the REAL level table "
            "(all ordered pairs of different rows, random longer lists incl. individually rejected ones)")
    trusted = ["hand-written model lean/VC2/Model/Stream.lean (shared with C01) tied to the code by the vd correspondence",
               "the real encoder/serialiser used to render individually valid data units"]
    assumptions = ["data units are individually valid; decoded picture CONTENT is covered by C03/C04/C09 (here: picture numbers in callback order)",
                   "slice counts are the same in all sequences of one stream (transform parameters are per picture and reset with the state)"]

    def cases(self, ctx, rng):
        for d in DIRECTED:
            yield d
        for _ in range(ctx.n(500, 8000)):
            k = rng.choice([1, 2, 2, 3, 3, 4])
            badpos = rng.randrange(k) if rng.random() < 0.35 else -1
            yield [gen_sequence(rng, bad=(i == badpos))[0] for i in range(k)]

    def correspond(self, ctx):
        rng = ctx.rng("cat")
        lines, exp, meta = [], [], []
        self._bad = None
        for seqs in self.cases(ctx, rng):
            hist = join(seqs)
            try:
                res, pics, flat, data = run_real(hist)
            except Exception as e:
                ctx.count("cat:unrenderable:%s" % type(e).__name__)
                continue
            lines.append(S.model_line(S.Config(), flat, toks_of(DOTSTAR)))
            exp.append("%s pics=%s" % (res, ",".join(map(str, pics))))
            meta.append(seqs)
            ctx.count("cat:%d-sequences:%s" % (len(seqs), res))
            v = violates(seqs)
            ctx.evaluations += 1
            if v and self._bad is None:
                self._bad = v
        ctx.diff("vd concatenated sequences of differing configurations: model == real validator (verdict class, decoded numbers)",
                 lines, exp)
        ctx.corr_names.append("real validator: concatenation == composition of the sequences alone")
        # sequences of DIFFERENT REAL LEVELS (header-only sequences for every row of the level table)
        ctx.corr_names.append("real validator: concatenations of sequences of different real levels == composition of the sequences alone")
        ctx.count("level-pool", len(level_pool()))
        ctx.count("level-pool:conformant-alone", len([it for it in level_pool() if it["alone"][0] == "OK"]))
        for items in level_cases(rng, ctx.n(400, 5000)):
            v = violates_bytes(items)
            ctx.evaluations += 1
            if v and self._bad is None:
                self._bad = v
        if self._bad:
            ctx.broke("correspondence", "compositionality on the real validator", self._bad["why"])

    def findings(self, ctx):
        return [self._bad] if getattr(self, "_bad", None) else []

    def search(self, ctx):
        rng = ctx.rng("search")
        for seqs in DIRECTED:
            v = violates(seqs)
            if v:
                return v
        for items in level_cases(rng, ctx.n(1500, 5000)):
            v = violates_bytes(items)
            if v:
                return v
        for _ in range(ctx.n(1500, 20000)):
            k = rng.choice([2, 2, 3])
            badpos = rng.randrange(k) if rng.random() < 0.5 else -1
            seqs = [gen_sequence(rng, bad=(i == badpos))[0] for i in range(k)]
            try:
                v = violates(seqs)
            except Exception:
                continue
            if v:
                return v
        return None

    def replay(self, ctx, path):
        with open(path) as f:
            r = json.load(f)
        fi = r.get("failing_input")
        if not fi:
            print("replay names broken obligations only:", r.get("broken_obligations"))
            return 1
        if "level_sequences" in fi:
            pool = level_pool()
            items = []
            for lv, base, pcm, _ in fi["level_sequences"]:
                items += [it for it in pool if (it["level"], it["base"], it["pcm"]) == (lv, base, pcm)][:1]
            v = violates_bytes(items)
            print("replay levels %s -> %s" % ([x[0] for x in fi["level_sequences"]], v["why"] if v else "property holds"))
            return 1 if v else 0
        v = violates(fi["sequences"])
        print("replay %s -> %s" % (fi["sequences"], v["why"] if v else "property holds"))
        return 1 if v else 0


PROP = Prop()
