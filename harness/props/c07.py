"""C07 — automatic field filling preserves explicit values and computes derived ones."""
import copy
import json
from io import BytesIO

M32 = 2 ** 32


def rand_desc(rng):
    """an abstract stream description: list of sequences, each a list of unit dicts (None = AUTO/omitted).
    Mostly serialisable: one picture family per sequence, slice-bearing fragments only after a first
    fragment, colour sub-presets only under colour spec 0, extended transform parameters only when the
    governing major_version is AUTO or 3, end of sequence last."""
    seqs = []
    for _ in range(rng.choice([1, 1, 2, 3])):
        units = []
        n = rng.randrange(0, 7)
        ld = rng.random() < 0.3
        prof = 0 if ld else 3
        mv_now = None
        frag_open = False
        for k in range(n + 1):
            c = rng.random()
            if k == 0 or c < 0.12:
                u = dict(kind="H", code=0x00, profile=rng.choice([prof, prof, prof, 0, 3]),
                         mv=rng.choice([None, None, None, 1, 2, 3]), mv_omitted=rng.random() < 0.5)
                for f, hi in (("fr", 12), ("sr", 5), ("cs", 6)):
                    u[f] = rng.choice([None, None, 0, 1, rng.randrange(0, hi)])
                for f in ("cp", "cm", "tf"):
                    u[f] = rng.choice([None, 0, 1, rng.randrange(0, 5)]) if u["cs"] == 0 else None
                mv_now = u["mv"]
            elif c < 0.45:
                u = dict(kind="P", code=0xC8 if ld else 0xE8)
            elif c < 0.8:
                sc = rng.choice([None, 0, 0, 1, 1]) if frag_open else rng.choice([None, 0])
                u = dict(kind="F", code=0xCC if ld else 0xEC, sc=sc)
                if (sc or 0) == 0:
                    frag_open = True
            else:
                u = dict(kind="Z", code=rng.choice([0x20, 0x30]), data=rng.randrange(0, 9), bytes_omitted=rng.random() < 0.2)
            if u["kind"] in "PF":
                u["pn"] = rng.choice([None, None, None, 0, 7, M32 - 1, M32 - 2, rng.randrange(M32)])
                u["pn_omitted"] = rng.random() < 0.5
                u["w"] = rng.choice([None, 0, 1, 4])
                u["etp"] = rng.random() < 0.5 and mv_now in (None, 3)
                # flags and values are independent: a set flag whose value is omitted takes the documented default
                u["aif"] = rng.choice([None, False, True, True]) if u["etp"] else None
                u["who"] = rng.choice([None, 0, 1, 4]) if u["aif"] else None
                u["af"] = rng.choice([None, False, True, True]) if u["etp"] else None
                u["dho"] = rng.choice([None, 0, 1, 2]) if u["af"] else None
            # explicit offsets: arbitrary values, except that padding/aux keep a consistent next offset
            if u["kind"] == "Z":
                u["next"] = rng.choice([None, None, "true"])
                if u.get("bytes_omitted"):
                    u["data"] = 0
                if u["data"] == 0 and rng.random() < 0.3:
                    u["next"] = 0    # an explicit 0 on a unit without payload: serialisable, and must stay 0
            else:
                u["next"] = rng.choice([None, None, None, 0, 13, 1000])
            u["prev"] = rng.choice([None, None, None, 0, 13, 999])
            u["next_omitted"] = rng.random() < 0.5
            u["prev_omitted"] = rng.random() < 0.5
            units.append(u)
        units.append(dict(kind="E", code=0x10, next=rng.choice([None, None, 0, 13]), prev=rng.choice([None, None, 5]),
                          next_omitted=rng.random() < 0.5, prev_omitted=rng.random() < 0.5))
        seqs.append(units)
    return seqs


def build_stream(desc):
    from vc2_conformance.bitstream import (Stream, Sequence, DataUnit, ParseInfo, SequenceHeader, ParseParameters, SourceParameters,
                                           FrameRate, FrameSize, SignalRange, ColorSpec, ColorPrimaries, ColorMatrix, TransferFunction,
                                           PictureParse, PictureHeader, WaveletTransform, TransformParameters,
                                           ExtendedTransformParameters, FragmentParse, FragmentHeader, Padding, AuxiliaryData)
    from vc2_conformance.bitstream.vc2_autofill import AUTO
    from vc2_data_tables import ParseCodes

    def put(d, key, val, omitted):
        if val is None:
            if not omitted:
                d[key] = AUTO
        else:
            d[key] = val

    seqs = []
    for units in desc:
        dus = []
        for u in units:
            pi = ParseInfo(parse_code=ParseCodes(u["code"]))
            nxt = u["next"]
            if nxt == "true":
                nxt = 13 + u["data"]
            put(pi, "next_parse_offset", nxt, u["next_omitted"])
            put(pi, "previous_parse_offset", u["prev"], u["prev_omitted"])
            du = DataUnit(parse_info=pi)
            if u["kind"] == "H":
                pp = ParseParameters(profile=u["profile"])
                put(pp, "major_version", u["mv"], u["mv_omitted"])
                # tiny pictures: the default format is 640x480 and its default slices take seconds to serialise
                sp = SourceParameters(frame_size=FrameSize(custom_dimensions_flag=True, frame_width=4, frame_height=2))
                if u["fr"] is not None:
                    sp["frame_rate"] = FrameRate(custom_frame_rate_flag=True, index=u["fr"])
                if u["sr"] is not None:
                    sp["signal_range"] = SignalRange(custom_signal_range_flag=True, index=u["sr"])
                if u["cs"] is not None:
                    cs = ColorSpec(custom_color_spec_flag=True, index=u["cs"])
                    if u["cp"] is not None:
                        cs["color_primaries"] = ColorPrimaries(custom_color_primaries_flag=True, index=u["cp"])
                    if u["cm"] is not None:
                        cs["color_matrix"] = ColorMatrix(custom_color_matrix_flag=True, index=u["cm"])
                    if u["tf"] is not None:
                        cs["transfer_function"] = TransferFunction(custom_transfer_function_flag=True, index=u["tf"])
                    sp["color_spec"] = cs
                du["sequence_header"] = SequenceHeader(parse_parameters=pp, video_parameters=sp)
            elif u["kind"] in "PF":
                tp = TransformParameters()
                if u["w"] is not None:
                    tp["wavelet_index"] = u["w"]
                if u["etp"]:
                    etp = ExtendedTransformParameters()
                    if u["aif"] is not None:
                        etp["asym_transform_index_flag"] = u["aif"]
                    if u["who"] is not None:
                        etp["wavelet_index_ho"] = u["who"]
                    if u["af"] is not None:
                        etp["asym_transform_flag"] = u["af"]
                    if u["dho"] is not None:
                        etp["dwt_depth_ho"] = u["dho"]
                    tp["extended_transform_parameters"] = etp
                if u["kind"] == "P":
                    ph = PictureHeader()
                    put(ph, "picture_number", u["pn"], u["pn_omitted"])
                    du["picture_parse"] = PictureParse(picture_header=ph, wavelet_transform=WaveletTransform(transform_parameters=tp))
                else:
                    fh = FragmentHeader()
                    put(fh, "picture_number", u["pn"], u["pn_omitted"])
                    if u["sc"] is not None:
                        fh["fragment_slice_count"] = u["sc"]
                    fp = FragmentParse(fragment_header=fh)
                    if (u["sc"] or 0) == 0:
                        fp["transform_parameters"] = tp
                    du["fragment_parse"] = fp
            elif u["kind"] == "Z":
                if not u.get("bytes_omitted"):
                    if u["code"] == 0x20:
                        du["auxiliary_data"] = AuxiliaryData(bytes=b"\x11" * u["data"])
                    else:
                        du["padding"] = Padding(bytes=b"\x22" * u["data"])
            dus.append(du)
        seqs.append(Sequence(data_units=dus))
    return Stream(sequences=seqs)


def run_real(desc):
    """-> (per-sequence list of observed (pn, next, prev, mv, etp), per-unit lengths) from the REAL autofill+serialiser"""
    from vc2_conformance.bitstream import autofill_and_serialise_stream
    from vc2_conformance.bitstream.vc2_autofill import get_transform_parameters

    from vc2_conformance.bitstream.vc2_autofill import autofill_picture_number, autofill_major_version, autofill_parse_offsets

    pre = build_stream(desc)  # the three autofill passes alone, in the order autofill_and_serialise_stream runs them
    autofill_picture_number(pre)
    autofill_major_version(pre)
    autofill_parse_offsets(pre)
    stream = build_stream(desc)
    f = BytesIO()
    autofill_and_serialise_stream(f, stream)
    data = f.getvalue()
    offs = []
    for s in stream["sequences"]:
        for du in s["data_units"]:
            offs.append(du["parse_info"]["_offset"])
    offs.append(len(data))
    out, lens, k = [], [], 0
    for s, spre, units in zip(stream["sequences"], pre["sequences"], desc):
        row, lrow = [], []
        for du, dupre, u in zip(s["data_units"], spre["data_units"], units):
            o = offs[k]
            assert data[o:o + 4] == b"BBCD", "no parse-info prefix at the recorded offset"
            nxt = int.from_bytes(data[o + 5:o + 9], "big")
            prv = int.from_bytes(data[o + 9:o + 13], "big")
            pn = mv = etp = None
            if u["kind"] == "P":
                pn = du["picture_parse"]["picture_header"]["picture_number"]
            elif u["kind"] == "F":
                pn = du["fragment_parse"]["fragment_header"]["picture_number"]
            if u["kind"] == "H":
                mv = du["sequence_header"]["parse_parameters"]["major_version"]
            if u["kind"] == "P" or (u["kind"] == "F" and (u["sc"] or 0) == 0):
                tp = get_transform_parameters(dupre)
                etp = 1 if "extended_transform_parameters" in tp else 0
            row.append((pn, nxt, prv, mv, etp))
            lrow.append(offs[k + 1] - o)
            k += 1
        out.append(row)
        lens.append(lrow)
    return out, lens, data


def default_wavelet():
    """the documented default of an omitted wavelet_index (read from the running tables)"""
    from vc2_conformance.bitstream.vc2_autofill import vc2_default_values_with_auto
    from vc2_conformance.bitstream import TransformParameters

    return int(vc2_default_values_with_auto[TransformParameters]["wavelet_index"])


def documented_default(fd_name, key):
    """the serialiser's documented default of an omitted field (bitstream/vc2.py's table, not autofill's)"""
    import vc2_conformance.bitstream as B
    from vc2_conformance.bitstream.vc2_fixeddicts import vc2_default_values

    return int(vc2_default_values[getattr(B, fd_name)][key])


def resolved_ho(u):
    """-> (wavelet_index_ho or None when the index flag is not set, dwt_depth_ho or None when the flag is not set)"""
    who = dho = None
    if u.get("etp"):
        if u["aif"]:
            who = u["who"] if u["who"] is not None else documented_default("ExtendedTransformParameters", "wavelet_index_ho")
        if u["af"]:
            dho = u["dho"] if u["dho"] is not None else documented_default("ExtendedTransformParameters", "dwt_depth_ho")
    return who, dho


def required_version(units):
    """the minimum major version the features of one sequence description require (10.4.1 / 11.2.2 / 12.4.4.1),
    written out independently of version_constraints.py and of the autofill code"""
    v = 1
    for u in units:
        if u["code"] in (0xCC, 0xEC):
            v = max(v, 3)
        if u["kind"] == "H":
            if u["profile"] == 3:
                v = max(v, 2)
            for f, top in (("fr", 11), ("sr", 4), ("cs", 4)):
                if u[f] is not None and u[f] > top:
                    v = 3
            if u["cs"] == 0:
                for f in ("cp", "cm", "tf"):
                    if u[f] is not None and u[f] > 3:
                        v = 3
        if u["kind"] == "P" or (u["kind"] == "F" and (u["sc"] or 0) == 0):
            w = default_wavelet() if u["w"] is None else u["w"]
            who, dho = resolved_ho(u)
            if (dho or 0) != 0 or (who is not None and who != w):
                v = 3
    return v


def fmt(v):
    return "-" if v is None else str(v)


def model_line(desc, lens):
    seqs = []
    for units, lrow in zip(desc, lens):
        parts = []
        for u, ln in zip(units, lrow):
            nxt = u["next"]
            if nxt == "true":
                nxt = 13 + u["data"]
            w = ["c=%d" % u["code"], "n=%s" % ("A" if nxt is None else nxt), "p=%s" % ("A" if u["prev"] is None else u["prev"]),
                 "l=%d" % ln, "d=%d" % u.get("data", 0)]
            if u["kind"] in "PF":
                w.append("pn=%s" % ("A" if u["pn"] is None else u["pn"]))
                if u["kind"] == "F":
                    w.append("sc=%s" % ("A" if u["sc"] is None else u["sc"]))
                if u["kind"] == "P" or (u["sc"] or 0) == 0:
                    # raw fields: the model resolves omitted ones through the GENERATED default table
                    flag = lambda v: "-" if v is None else str(int(v))  # noqa
                    w += ["w=%s" % fmt(u["w"]), "aif=%s" % flag(u.get("aif")), "who=%s" % fmt(u.get("who")), "af=%s" % flag(u.get("af")),
                          "dho=%s" % fmt(u.get("dho")), "etp=%d" % (1 if u["etp"] else 0)]
            if u["kind"] == "H":
                w += ["pr=%d" % u["profile"], "mv=%s" % ("A" if u["mv"] is None else u["mv"])]
                for f in ("fr", "sr", "cs", "cp", "cm", "tf"):
                    w.append("%s=%s" % (f, fmt(u[f])))
            parts.append(" ".join(w))
        seqs.append(" ; ".join(parts))
    return "af " + " / ".join(seqs)


def expected_line(obs):
    return " / ".join(";".join(",".join(fmt(v) for v in t) for t in row) for row in obs)


def violates(desc):
    """the property, checked directly on the REAL output: explicit values unchanged, offsets true,
    numbering rule, validator happy about version/offset/number rules when everything was AUTO"""
    obs, lens, data = run_real(desc)
    for units, row, lrow in zip(desc, obs, lens):
        last = M32 - 1
        need = required_version(units)
        for i, (u, (pn, nxt, prv, mv, etp), ln) in enumerate(zip(units, row, lrow)):
            enxt = 13 + u["data"] if u["next"] == "true" else u["next"]
            if enxt is not None and nxt != enxt:
                return "explicit next_parse_offset %s became %s" % (enxt, nxt)
            if u["prev"] is not None and prv != u["prev"]:
                return "explicit previous_parse_offset %s became %s" % (u["prev"], prv)
            if enxt is None:
                want = 0 if i == len(units) - 1 and u["kind"] != "Z" else ln
                if nxt != want:
                    return "automatic next_parse_offset %s, true distance %s (unit %d)" % (nxt, want, i)
            if u["prev"] is None and prv != (lrow[i - 1] if i else 0):
                return "automatic previous_parse_offset %s, true distance %s" % (prv, lrow[i - 1] if i else 0)
            if u["kind"] in "PF":
                inc = u["kind"] == "P" or (u["sc"] or 0) == 0
                want = u["pn"] if u["pn"] is not None else ((last + 1) % M32 if inc else last)
                if pn != want:
                    return "picture number %s, expected %s (unit %d)" % (pn, want, i)
                last = pn
            if u["kind"] == "H" and u["mv"] is not None and mv != u["mv"]:
                return "explicit major_version %s became %s" % (u["mv"], mv)
            if u["kind"] == "H" and u["mv"] is None and mv != need:
                return "automatic major_version %s, but the features of the sequence require exactly %s" % (mv, need)
            if etp == 0 and u.get("etp"):
                # removal is allowed only for parameters that select nothing asymmetric (the documented design:
                # below version 3 they cannot be coded at all); losing a set flag with an effect is a lost explicit value
                who, dho = resolved_ho(u)
                w = default_wavelet() if u["w"] is None else u["w"]
                if (who is not None and who != w) or (dho or 0) != 0:
                    return "extended transform parameters that select an asymmetric transform were removed (unit %d)" % i
    return None


class Prop(object):
    id = "C07"
    lean_modules = ["VC2.Props.C07"]
    status = "full"
    rule = ("random stream descriptions (1-3 sequences; sequence headers with explicit/AUTO/omitted major_version, profiles, custom frame-rate / signal-range / "
            "colour presets; HQ and LD pictures and fragments with explicit/AUTO/omitted picture numbers incl. 2^32-1, slice counts omitted/0/n, wavelet indices, "
            "extended transform parameters with/without asymmetric features; padding/auxiliary payloads 0-8 bytes or omitted; explicit/AUTO/omitted next and previous "
            "offsets) built from the REAL fixeddicts, run through the REAL autofill_and_serialise_stream; picture numbers, major versions, presence of extended "
            "transform parameters (from the filled description) and both offsets (read back from the serialised bytes at the recorded unit offsets) compared with the model")
    trusted = ["hand-written model lean/VC2/Model/Autofill.lean tied to the code by the af correspondence",
               "T1 translations of the ten version-implication functions (differentially self-checked)",
               "serialised data-unit lengths are taken from the real serialiser (its round trip is C06/C21)"]
    assumptions = ["every data unit has an explicit parse code; padding/auxiliary units with an explicit next_parse_offset use the consistent value 13 + payload length",
                   "documented defaults of omitted fields: the six the autofill passes consult (wavelet_index, the two asymmetry flags, wavelet_index_ho, dwt_depth_ho, "
                   "fragment_slice_count) are GENERATED from the default table into the model; that the serialiser writes defaults for everything else is C21"]

    def correspond(self, ctx):
        rng = ctx.rng("af")
        self._bad = None
        lines, exp = [], []
        for _ in range(ctx.n(1500, 25000)):
            desc = rand_desc(rng)
            try:
                obs, lens, data = run_real(copy.deepcopy(desc))
            except Exception as e:  # noqa
                ctx.count("af:unserialisable:%s" % type(e).__name__)
                continue
            lines.append(model_line(desc, lens))
            exp.append(expected_line(obs))
            ctx.count("af:sequences:%d" % len(desc))
            why = violates(copy.deepcopy(desc))
            if why and not self._bad:
                self._bad = {"description": desc, "why": why}
        ctx.diff("af random stream descriptions: filled numbers/versions/offsets, model == real autofill_and_serialise_stream", lines, exp)
        ctx.corr_names.append("the property's rules evaluated directly on the real output")

    def findings(self, ctx):
        return [self._bad] if self._bad else []

    def search(self, ctx):
        rng = ctx.rng("search")
        for _ in range(ctx.n(3000, 40000)):
            desc = rand_desc(rng)
            try:
                why = violates(copy.deepcopy(desc))
            except Exception:
                continue
            if why:
                return {"description": desc, "why": why}
        return None

    def replay(self, ctx, path):
        with open(path) as f:
            r = json.load(f)
        fi = r.get("failing_input")
        if not fi:
            print("replay names broken obligations only:", r.get("broken_obligations"))
            return 1
        why = violates(fi["description"])
        print("replay ->", why or "property holds")
        return 1 if why else 0


PROP = Prop()
