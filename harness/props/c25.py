"""C25 — the validator command reports verdicts and decoded pictures faithfully."""
import contextlib
import io
import json
import os
import shutil
import tempfile

import bytesgen as B


def run_cli(data, pattern="picture_%d.raw", how="abs"):
    """run the REAL command (main) on a file holding `data`; -> (exit status, {filename: bytes}, stdout, stderr)"""
    from vc2_conformance.scripts.vc2_bitstream_validator import main

    d = tempfile.mkdtemp(prefix="c25_")
    try:
        src = os.path.join(d, "in.vc2")
        with open(src, "wb") as f:
            f.write(data)
        out, err = io.StringIO(), io.StringIO()
        with contextlib.redirect_stdout(out), contextlib.redirect_stderr(err):
            with B.Guard():
                # the output pattern as an absolute path, as a bare relative name (current directory = d), or not given
                # at all (the command's default pattern, again relative to the current directory)
                cwd = os.getcwd()
                try:
                    if how == "abs":
                        argv = [src, "--output", os.path.join(d, pattern)]
                    else:
                        os.chdir(d)
                        argv = [src, "--output", pattern] if how == "rel" else [src]
                    code = main(argv)
                except SystemExit as e:
                    code = e.code
                finally:
                    os.chdir(cwd)
        files = {}
        for fn in sorted(os.listdir(d)):
            if fn != "in.vc2":
                with open(os.path.join(d, fn), "rb") as f:
                    files[fn] = f.read()
        return code, files, out.getvalue(), err.getvalue()
    finally:
        shutil.rmtree(d, ignore_errors=True)


def decode_direct(data):
    """the decoder's own output (callback arguments), in order"""
    pics = []
    info = {}
    res = B.validate(data, callback=lambda p, vp, pcm: pics.append((p, vp, pcm)), info=info)
    decode_direct.info = info
    return res, pics


def expected_files(pics, pattern):
    """what the files must contain: file_format's encoding of each callback argument (C23)"""
    from vc2_conformance import file_format

    out = {}
    for i, (p, vp, pcm) in enumerate(pics):
        fr, fj = io.BytesIO(), io.BytesIO()
        file_format.write_picture(p, vp, pcm, fr)
        file_format.write_metadata(p, vp, pcm, fj)
        raw = pattern % i
        out[raw] = fr.getvalue()
        out[os.path.splitext(raw)[0] + ".json"] = fj.getvalue()
    return out


def violates(data, pattern="picture_%d.raw", how="abs"):
    res, pics = decode_direct(data)
    if res in ("OUT-OF-SCOPE", "TIMEOUT"):
        return None, res
    if how == "default":
        pattern = "picture_%d.raw"     # (the documented default of --output)
    code, files, out, err = run_cli(data, pattern, how)
    if code == 3:
        return "exit status 3 (internal error): %s" % err.strip()[-200:], res
    if res == "OK":
        if code != 0:
            return "conformant stream but exit status %s" % code, res
        want = expected_files(pics, pattern)
        if sorted(files) != sorted(want):
            return "files written %s, expected %s" % (sorted(files), sorted(want)), res
        for fn in want:
            if fn.endswith(".raw") and files[fn] != want[fn]:
                return "contents of %s differ from the decoder's output" % fn, res
            if fn.endswith(".json") and json.loads(files[fn]) != json.loads(want[fn]):
                return "metadata %s differs from the decoder's output" % fn, res
    elif res.startswith("CRASH"):
        return "validator raised %s" % res, res
    else:
        if code != 2:
            return "non-conformant stream (%s) but exit status %s" % (res, code), res
        if "offset" not in out.lower() and "offset" not in err.lower():
            return "no located explanation in the report", res
        # located: the offset named in the title (and handed to the viewer hint) is the error's own offending
        # offset when it has one (0 included), the reader's position otherwise (model: reportedOffset)
        import re
        info = getattr(decode_direct, "info", {})
        if "tell" in info:
            want_off = info["offending_offset"] if info["offending_offset"] is not None else info["tell"]
            m = re.search(r"Conformance error at bit offset (\d+)", out)
            if not m:
                return "the report has no 'Conformance error at bit offset N' title", res
            if int(m.group(1)) != want_off:
                return "the report locates the error at bit %s, the error's own offset is %s" % (m.group(1), want_off), res
            hints = re.findall(r"offset (\d+)", out)
            if info.get("hint_uses_offset") and str(want_off) not in hints:
                return "the viewer hint uses offsets %s, the error's own offset is %s" % (hints, want_off), res
        want = expected_files(pics, pattern)  # pictures decoded before the error are still written
        for fn in want:
            if fn.endswith(".raw") and files.get(fn) != want[fn]:
                return "contents of %s (written before the error) differ from the decoder's output" % fn, res
    return None, res


class Prop(object):
    id = "C25"
    lean_modules = ["VC2.Props.C25"]
    status = "partial"
    rule = ("the 12 conformant seed streams (incl. two concatenated sequences of different frame size / bit depth / frame-vs-field coding) and their byte- and field-level mutations, "
            "written to a file and run through the REAL command main([...]) with output filename patterns given as absolute paths, as bare relative names, or not at all (the default pattern): exit status vs the validator's verdict, never 3; "
            "the set of files written, numbered from 0, and each raw file's bytes and JSON metadata vs the decoder's callback arguments encoded by file_format")
    trusted = ["model ValidatorCli.lean (status decision, numbering) - its tie is this comparison of exit status and file names with the real command",
               "C02 (partial) for the unreachability of status 3; C23 for the file encoding", "argparse, the status line and the report text are not modelled"]
    assumptions = ["same size guard as C02 (streams above the bound are skipped and counted)"]

    def correspond(self, ctx):
        rng = ctx.rng("cli")
        self._bad = None
        seeds = B.seeds()
        lines, exp = [], []
        cases = [(n, d) for n, d in seeds]
        for _ in range(ctx.n(500, 8000)):
            n, d = rng.choice(seeds)
            cases.append((n, B.mutate(rng, d)))
        ctx.corr_names.append("REAL vc2-bitstream-validator main(): exit status, files written and their contents vs the decoder's own output")
        for i, (n, data) in enumerate(cases):
            pattern, how = [("picture_%d.raw", "abs"), ("out-%03d_x.raw", "abs"), ("decoded_%d.raw", "rel"), ("picture_%d.raw", "default")][i % 4]
            why, res = violates(data, pattern, how)
            ctx.evaluations += 1
            ctx.count("cli:%s" % ("skipped" if res in ("OUT-OF-SCOPE", "TIMEOUT") else ("OK" if res == "OK" else "rejected")))
            if res not in ("OUT-OF-SCOPE", "TIMEOUT"):
                ctx.distinct.add(hash(data))
            if why and not self._bad:
                self._bad = {"seed": n, "bytes": data.hex(), "pattern": pattern, "how": how, "why": why}
        ctx.traces += len(cases)

    def findings(self, ctx):
        return [self._bad] if self._bad else []

    def search(self, ctx):
        rng = ctx.rng("search")
        seeds = B.seeds()
        for n, d in seeds:
            for pattern, how in (("picture_%d.raw", "abs"), ("decoded_%d.raw", "rel"), ("picture_%d.raw", "default")):
                why, res = violates(d, pattern, how)
                if why:
                    return {"seed": n, "bytes": d.hex(), "pattern": pattern, "how": how, "why": why}
        for i in range(ctx.n(1500, 20000)):
            n, d = rng.choice(seeds)
            m = B.mutate(rng, d)
            pattern, how = [("picture_%d.raw", "abs"), ("decoded_%d.raw", "rel"), ("picture_%d.raw", "default")][i % 3]
            why, res = violates(m, pattern, how)
            if why:
                return {"seed": n, "bytes": m.hex(), "pattern": pattern, "how": how, "why": why}
        return None

    def replay(self, ctx, path):
        with open(path) as f:
            r = json.load(f)
        fi = r.get("failing_input")
        if not fi:
            print("replay names broken obligations only:", r.get("broken_obligations"))
            return 1
        why, res = violates(bytes.fromhex(fi["bytes"]), fi.get("pattern", "picture_%d.raw"), fi.get("how", "abs"))
        print("replay ->", why or "property holds (%s)" % res)
        return 1 if why else 0


PROP = Prop()
