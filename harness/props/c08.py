"""C08 — the bitstream deserialiser and the validator read identical content."""
import copy
import importlib
import json
from io import BytesIO

import codecgen as G


# header and parameter values both readers derive and keep in their state (compared at every picture)
PARAM_KEYS = ["video_parameters", "luma_depth", "color_diff_depth", "picture_coding_mode", "major_version", "minor_version", "profile", "level",
              "slice_bytes_numerator", "slice_bytes_denominator", "slice_prefix_bytes", "slice_size_scaler", "quant_matrix"]


def validate_capturing(data):
    """REAL validator with picture_decode wrapped in-process: -> (verdict, [snapshot per decoded picture])"""
    from vc2_conformance import decoder
    from vc2_conformance.pseudocode.state import State

    snaps = []
    mods = [importlib.import_module("vc2_conformance.decoder.stream"),
            importlib.import_module("vc2_conformance.decoder.picture_syntax"),
            importlib.import_module("vc2_conformance.decoder.fragment_syntax")]
    saved = [(m, m.picture_decode) for m in mods if hasattr(m, "picture_decode")]
    keys = ["luma_width", "luma_height", "color_diff_width", "color_diff_height", "dwt_depth", "dwt_depth_ho", "slices_x", "slices_y",
            "wavelet_index", "wavelet_index_ho", "picture_number", "parse_code"] + PARAM_KEYS

    def make(orig):
        def wrapped(state):
            snap = dict((k, copy.deepcopy(state[k])) for k in keys if k in state)
            for t in ("y_transform", "c1_transform", "c2_transform"):
                snap[t] = copy.deepcopy(state[t])
            snap["quant_matrix"] = copy.deepcopy(state["quant_matrix"])
            snaps.append(snap)
            return orig(state)
        return wrapped

    for m, orig in saved:
        m.picture_decode = make(orig)
    try:
        st = State(_output_picture_callback=lambda p, vp, pcm: None)
        decoder.init_io(st, BytesIO(data))
        try:
            decoder.parse_stream(st)
            verdict = "OK"
        except decoder.ConformanceError as e:
            verdict = type(e).__name__
    finally:
        for m, orig in saved:
            m.picture_decode = orig
    return verdict, snaps


def deserialise(data):
    from vc2_conformance.bitstream import BitstreamReader, Deserialiser, parse_stream
    from vc2_conformance.pseudocode.state import State

    import signal
    import bytesgen as B

    r = BitstreamReader(BytesIO(data))
    # the validator has accepted these bytes within its own time limit: a deserialiser that does not finish on them
    # is reported, not waited for
    signal.signal(signal.SIGALRM, B._alarm)
    signal.alarm(20)
    try:
        with Deserialiser(r) as des:
            parse_stream(des, State())
    except B.Timeout:
        raise RuntimeError("the deserialiser did not finish within 20 s on an accepted stream of %d bytes" % len(data))
    finally:
        signal.alarm(0)
    return des.context


def pictures_of(ctx):
    """per decoded picture (in stream order): (headers list, transform_parameters, slices in raster order)"""
    out = []
    units = []
    for seq in ctx["sequences"]:
        cur = None
        for du in seq["data_units"]:
            code = int(du["parse_info"]["parse_code"])
            units.append(code)
            if "picture_parse" in du:
                wt = du["picture_parse"]["wavelet_transform"]
                td = wt["transform_data"]
                out.append((du["picture_parse"]["picture_header"]["picture_number"], wt["transform_parameters"],
                            list(td.get("hq_slices", td.get("ld_slices", []))), code, td.get("_state")))
            elif "fragment_parse" in du:
                fp = du["fragment_parse"]
                fh = fp["fragment_header"]
                if fh["fragment_slice_count"] == 0:
                    cur = [fh["picture_number"], fp["transform_parameters"], [], code, None]
                    out.append(cur)
                else:
                    fd = fp["fragment_data"]
                    cur[2].extend(fd.get("hq_slices", fd.get("ld_slices", [])))
                    cur[4] = fd.get("_state")
    return [tuple(p) for p in out], units


def bands(depth, depth_ho):
    if depth_ho == 0:
        out = [(0, "LL")]
    else:
        out = [(0, "L")] + [(lv, "H") for lv in range(1, depth_ho + 1)]
    for lv in range(depth_ho + 1, depth_ho + depth + 1):
        out += [(lv, o) for o in ("HL", "LH", "HH")]
    return out


# --- independent dequantisation, DC prediction and slice geometry, written from the standard (13.3, 13.4, 13.5.6) --
# (the comparison must not borrow the project's own helpers: a slip in one of them would then be invisible)
def _quant_factor(i):
    base = 2 ** (i // 4)
    r = i % 4
    if r == 0:
        return 4 * base
    if r == 1:
        return (503829 * base + 52958) // 105917
    if r == 2:
        return (665857 * base + 58854) // 117708
    return (440253 * base + 32722) // 65444


def _quant_offset(i):
    if i == 0:
        return 1
    if i == 1:
        return 2
    return (_quant_factor(i) + 1) // 2


def _inverse_quant(q, i):
    m = abs(q)
    if m != 0:
        m = (m * _quant_factor(i) + _quant_offset(i) + 2) // 4
    return m if q > 0 else -m


def _dc_prediction(band):
    for y in range(len(band)):
        for x in range(len(band[0])):
            if x > 0 and y > 0:
                t = band[y][x - 1] + band[y - 1][x - 1] + band[y - 1][x] + 1
                pred = t // 3          # floor, also for negative sums
            elif x > 0:
                pred = band[0][x - 1]
            elif y > 0:
                pred = band[y - 1][0]
            else:
                pred = 0
            band[y][x] += pred


def rebuild(snap, tp, slices, code):
    """dequantise and DC-predict the DESERIALISED coefficients independently of the project's helpers"""
    from vc2_data_tables import QUANTISATION_MATRICES

    inverse_quant, dc_prediction = _inverse_quant, _dc_prediction
    tname_of = {"Y": "y_transform", "C1": "c1_transform", "C2": "c2_transform"}

    def dims(comp, lv, o):
        band = snap[tname_of[comp]][lv][o]
        return len(band[0]) if band else 0, len(band)

    def orient0(lv):
        return ("LL" if depth_ho == 0 else "L") if lv == 0 else ("H" if lv <= depth_ho else "HL")

    def slice_left(st, sx, comp, lv):
        return (dims(comp, lv, orient0(lv))[0] * sx) // snap["slices_x"]

    def slice_right(st, sx, comp, lv):
        return (dims(comp, lv, orient0(lv))[0] * (sx + 1)) // snap["slices_x"]

    def slice_top(st, sy, comp, lv):
        return (dims(comp, lv, orient0(lv))[1] * sy) // snap["slices_y"]

    def slice_bottom(st, sy, comp, lv):
        return (dims(comp, lv, orient0(lv))[1] * (sy + 1)) // snap["slices_y"]

    depth, depth_ho = tp["dwt_depth"], tp.get("extended_transform_parameters", {}).get("dwt_depth_ho", 0)
    etp = tp.get("extended_transform_parameters", {})
    if not etp.get("asym_transform_flag", False):
        depth_ho = 0
    wi = tp["wavelet_index"]
    wiho = etp.get("wavelet_index_ho", wi) if etp.get("asym_transform_index_flag", False) else wi
    qmx = tp["quant_matrix"]
    bl = bands(depth, depth_ho)
    if qmx["custom_quant_matrix"]:
        vals = list(qmx["quant_matrix"])
        qm = {}
        for (lv, o), v in zip(bl, vals):
            qm.setdefault(lv, {})[o] = v
    else:
        qm = QUANTISATION_MATRICES[(wi, wiho, depth, depth_ho)]
    st = None
    out = dict((t, copy.deepcopy(snap[t])) for t in ("y_transform", "c1_transform", "c2_transform"))
    for t in out.values():  # blank the arrays: every coefficient must be written from the deserialised data
        for lv in t:
            for o in t[lv]:
                t[lv][o] = [[None] * len(row) for row in t[lv][o]]
    sx_n = snap["slices_x"]
    is_ld = code in (0xC8, 0xCC)
    for i, s in enumerate(slices):
        sx, sy = i % sx_n, i // sx_n
        q = s["qindex"]
        if not is_ld:
            for comp, tname, key in (("Y", "y_transform", "y_transform"), ("C1", "c1_transform", "c1_transform"), ("C2", "c2_transform", "c2_transform")):
                it = iter(s[key])
                for lv, o in bl:
                    qi = max(q - qm[lv][o], 0)
                    for y in range(slice_top(st, sy, comp, lv), slice_bottom(st, sy, comp, lv)):
                        for x in range(slice_left(st, sx, comp, lv), slice_right(st, sx, comp, lv)):
                            out[tname][lv][o][y][x] = inverse_quant(next(it), qi)
        else:
            it = iter(s["y_transform"])
            for lv, o in bl:
                qi = max(q - qm[lv][o], 0)
                for y in range(slice_top(st, sy, "Y", lv), slice_bottom(st, sy, "Y", lv)):
                    for x in range(slice_left(st, sx, "Y", lv), slice_right(st, sx, "Y", lv)):
                        out["y_transform"][lv][o][y][x] = inverse_quant(next(it), qi)
            it = iter(s["c_transform"])
            for lv, o in bl:
                qi = max(q - qm[lv][o], 0)
                for y in range(slice_top(st, sy, "C1", lv), slice_bottom(st, sy, "C1", lv)):
                    for x in range(slice_left(st, sx, "C1", lv), slice_right(st, sx, "C1", lv)):
                        out["c1_transform"][lv][o][y][x] = inverse_quant(next(it), qi)
                        out["c2_transform"][lv][o][y][x] = inverse_quant(next(it), qi)
    if is_ld:
        for t in out.values():
            dc_prediction(t[0]["LL" if depth_ho == 0 else "L"])
    return out


def violates(data):
    verdict, snaps = validate_capturing(data)
    if verdict != "OK":
        return None, "rejected"
    ctx = deserialise(data)
    # the state snapshot the deserialiser stores with every block of slices (`_state`, the documented way to place the
    # slice values) is the state AT that data unit: its parse code, picture number and fragment position
    for seq in ctx["sequences"]:
        for du in seq["data_units"]:
            code = int(du["parse_info"]["parse_code"])
            if "picture_parse" in du:
                st = du["picture_parse"]["wavelet_transform"]["transform_data"].get("_state")
                want = {"parse_code": code, "picture_number": du["picture_parse"]["picture_header"]["picture_number"]}
            elif "fragment_parse" in du and "fragment_data" in du["fragment_parse"]:
                fh = du["fragment_parse"]["fragment_header"]
                st = du["fragment_parse"]["fragment_data"].get("_state")
                want = {"parse_code": code, "picture_number": fh["picture_number"], "fragment_slice_count": fh["fragment_slice_count"],
                        "fragment_x_offset": fh["fragment_x_offset"], "fragment_y_offset": fh["fragment_y_offset"]}
            else:
                continue
            if st is None:
                continue
            for k, v in want.items():
                if k in st and int(st[k]) != int(v):
                    return ("the state stored with the slices of a data unit (parse code %d, picture %s) says %s = %s, the data unit itself %s"
                            % (code, want["picture_number"], k, st[k], v)), "accepted"
    pics, units = pictures_of(ctx)
    if len(pics) != len(snaps):
        return "the deserialiser sees %d pictures, the validator decoded %d" % (len(pics), len(snaps)), "accepted"
    for i, ((num, tp, slices, code, dstate), snap) in enumerate(zip(pics, snaps)):
        for k in PARAM_KEYS:
            if dstate is not None and k in snap and k in dstate and dstate[k] != snap[k]:
                return "picture %d: the deserialiser holds %s = %r, the validator %r" % (i, k, dstate[k], snap[k]), "accepted"
        if num != snap.get("picture_number"):
            return "picture %d: numbers differ (%s vs %s)" % (i, num, snap.get("picture_number")), "accepted"
        if len(slices) != snap["slices_x"] * snap["slices_y"]:
            return "picture %d: %d slices deserialised, %dx%d decoded" % (i, len(slices), snap["slices_x"], snap["slices_y"]), "accepted"
        rebuilt = rebuild(snap, tp, slices, code)
        for t in ("y_transform", "c1_transform", "c2_transform"):
            if rebuilt[t] != snap[t]:
                return ("picture %d: %s differs between the deserialised coefficients (dequantised, DC-predicted) and the validator's transform data" % (i, t)), "accepted"
    return None, "accepted"


def splice_units(rng, data):
    """insert padding / auxiliary data units with short payloads (0-5 bytes, mostly 1) after the sequence header and / or
    before the end of the sequence, by hand on the bytes: every unit's next / previous parse offsets are rewritten"""
    units, off = [], 0
    while off < len(data):
        nxt = int.from_bytes(data[off + 5:off + 9], "big")
        if nxt == 0:
            units.append(bytearray(data[off:]))
            break
        units.append(bytearray(data[off:off + nxt]))
        off += nxt
    if len(units) < 2 or any(bytes(u[:4]) != b"BBCD" for u in units) or units[-1][4] != 0x10:
        return data   # (more than one sequence, or not walkable: left alone)

    def unit():
        n = rng.choice([1, 1, 1, 0, 2, 3, 5])
        return bytearray(b"BBCD" + bytes([rng.choice([0x30, 0x20])]) + bytes(8) + bytes(rng.getrandbits(8) for _ in range(n)))
    if rng.random() < 0.7:
        units.insert(1, unit())
    if rng.random() < 0.5:
        units.insert(len(units) - 1, unit())
    if rng.random() < 0.3:
        units.insert(1, unit())
    prev = 0
    for i, u in enumerate(units):
        u[5:9] = (0 if i == len(units) - 1 else len(u)).to_bytes(4, "big")
        u[9:13] = prev.to_bytes(4, "big")
        prev = len(u)
    return b"".join(bytes(u) for u in units)


def rand_stream(rng):
    """encoder output; sometimes two pictures with DIFFERENT quantisation matrices in one sequence; sometimes
    slice padding bits / dangling values through byte-level flips inside slice payloads"""
    from vc2_conformance.codec_features import CodecFeatures
    from vc2_conformance.encoder.sequence_header import make_sequence_header_data_unit
    from vc2_conformance.encoder.pictures import make_picture_data_units
    from vc2_conformance.bitstream import Stream, Sequence, DataUnit, ParseInfo, autofill_and_serialise_stream
    from vc2_data_tables import ParseCodes

    cf = G.rand_config(rng)
    pics = G.rand_pictures(rng, cf)
    if rng.random() < 0.35 and (cf["dwt_depth"] + cf["dwt_depth_ho"]) >= 0 and not cf["lossless"]:
        # second matrix: same shape, different entries
        def matrix(seed):
            r = rng.__class__(seed)
            d, dh = cf["dwt_depth"], cf["dwt_depth_ho"]
            qm = {0: {"LL": r.randrange(0, 4)}} if dh == 0 else {0: {"L": r.randrange(0, 4)}}
            for lv in range(1, dh + 1):
                qm[lv] = {"H": r.randrange(0, 6)}
            for lv in range(dh + 1, d + dh + 1):
                qm[lv] = {"HL": r.randrange(0, 6), "LH": r.randrange(0, 6), "HH": r.randrange(0, 8)}
            return qm
        minq = 0
        if rng.random() < 0.6:
            # plenty of bytes and a forced minimum index: every slice of every picture is coded with the SAME quantisation
            # index, larger than the matrix entries - anything remembered per index from the previous picture would be
            # reused under the other matrix
            cf = CodecFeatures(cf, picture_bytes=4 * cf["slices_x"] * cf["slices_y"] + 1500)
            minq = rng.choice([8, 12, 20])
        cfa = CodecFeatures(cf, quantization_matrix=matrix(rng.randrange(10 ** 6)))
        cfb = CodecFeatures(cf, quantization_matrix=matrix(rng.randrange(10 ** 6)))
        if cf["picture_coding_mode"] == 1 and len(pics) % 2:
            pics = pics + pics[-1:]
        units = [make_sequence_header_data_unit(cfa)]
        for i, p in enumerate(pics):
            p = copy.deepcopy(p)
            p.pop("pic_num", None)
            units += make_picture_data_units(cfa if i % 2 == 0 else cfb, p, minq)
        units.append(DataUnit(parse_info=ParseInfo(parse_code=ParseCodes.end_of_sequence)))
        f = BytesIO()
        autofill_and_serialise_stream(f, Stream(sequences=[Sequence(data_units=units)]))
        return f.getvalue(), cf, "two-matrices"
    data, seq = G.encode(cf, pics)
    if rng.random() < 0.2:
        return splice_units(rng, data), cf, "extra-units"
    if rng.random() < 0.4:
        b = bytearray(data)
        # flip bits in the second half of the stream (slice payloads): most variants stay conformant
        for _ in range(rng.choice([1, 2, 4])):
            i = rng.randrange(len(b) * 4, len(b) * 8 - 13 * 8) if len(b) > 40 else rng.randrange(len(b) * 8)
            b[i // 8] ^= 1 << (7 - i % 8)
        return bytes(b), cf, "payload-flips"
    return data, cf, "plain"


class Prop(object):
    id = "C08"
    lean_modules = ["VC2.Props.C08"]
    status = "partial"
    rule = ("accepted streams: encoder output for random small configurations (both profiles, fragments, asymmetric transforms, custom matrices), sequences whose pictures alternate "
            "between two different custom quantisation matrices, streams with extra padding / auxiliary data units carrying 0-5 payload bytes, and variants with bit flips inside slice payloads (padding bits, dangling bounded-block values, changed lengths and "
            "coefficients) that the validator still accepts: the REAL deserialiser's slices, dequantised with the deserialised quantisation matrix and DC-predicted with the real "
            "pseudocode helpers, are compared coefficient by coefficient with the transform arrays captured at the validator's picture_decode; picture count, numbers and slice counts too")
    trusted = ["model BitIO.lean (C20) with its io correspondence; the reconstruction uses the real slice geometry / inverse_quant / dc_prediction functions (properties C13, C12, C04)"]
    assumptions = ["only streams the validator accepts are in scope"]

    def correspond(self, ctx):
        rng = ctx.rng("c08")
        self._bad = None
        ctx.corr_names.append("REAL Deserialiser content (dequantised, DC-predicted) == transform data at the validator's picture_decode")
        for _ in range(ctx.n(700, 20000)):
            data, kind = b"", "error"
            try:
                data, cf, kind = rand_stream(rng)
                why, res = violates(data)
            except Exception as e:  # noqa
                why, res = "exception %s: %s" % (type(e).__name__, str(e)[:200]), "error"
            ctx.evaluations += 1
            ctx.count("stream:%s:%s" % (kind, res))
            if res == "accepted":
                ctx.distinct.add(hash(data))
            if why and not self._bad:
                self._bad = {"bytes": data.hex(), "kind": kind, "why": why}

    def findings(self, ctx):
        return [self._bad] if self._bad else []

    def search(self, ctx):
        rng = ctx.rng("search")
        for _ in range(ctx.n(2000, 30000)):
            data = None
            try:
                data, cf, kind = rand_stream(rng)
                why, res = violates(data)
            except Exception as e:  # noqa
                if data is None:
                    continue
                why = "exception %s: %s" % (type(e).__name__, str(e)[:200])
            if why:
                return {"bytes": data.hex(), "kind": kind, "why": why}
        return None

    def replay(self, ctx, path):
        with open(path) as f:
            r = json.load(f)
        fi = r.get("failing_input")
        if not fi or not fi.get("bytes"):
            print("replay names broken obligations only:", r.get("broken_obligations"), fi)
            return 1
        try:
            why, res = violates(bytes.fromhex(fi["bytes"]))
        except Exception as e:  # noqa
            why, res = "exception %s: %s" % (type(e).__name__, str(e)[:200]), "error"
        print("replay ->", why or "property holds (%s)" % res)
        return 1 if why else 0


PROP = Prop()
