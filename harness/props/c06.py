"""C06 — deserialising then serialising any parseable stream reproduces its bytes."""
import ast
import itertools
import json
import signal
import sys
from io import BytesIO

sys.path.insert(0, "/repo/tests")

import streams as S

ALLOWED_SERDES_API = {
    "bool", "nbits", "uint_lit", "bitarray", "bytes", "uint", "sint", "byte_align", "bounded_block", "bounded_block_begin",
    "bounded_block_end", "declare_list", "set_context_type", "subcontext", "subcontext_enter", "subcontext_leave",
    "computed_value", "is_target_complete", "io",
}
ALLOWED_IO_API = {"tell", "is_end_of_stream"}


def lint_vc2():
    """every use of `serdes` in bitstream/vc2.py goes through the modelled framework API"""
    import vc2_conformance.bitstream.vc2 as m

    src = open(m.__file__.replace(".pyc", ".py")).read()
    tree = ast.parse(src)
    bad = []
    for node in ast.walk(tree):
        if isinstance(node, ast.Attribute) and isinstance(node.value, ast.Name) and node.value.id == "serdes":
            if node.attr not in ALLOWED_SERDES_API:
                bad.append("serdes.%s (line %d)" % (node.attr, node.lineno))
        if (isinstance(node, ast.Attribute) and isinstance(node.value, ast.Attribute) and isinstance(node.value.value, ast.Name)
                and node.value.value.id == "serdes" and node.value.attr == "io"):
            if node.attr not in ALLOWED_IO_API:
                bad.append("serdes.io.%s (line %d)" % (node.attr, node.lineno))
    return bad


class Timeout(BaseException):  # not an Exception: the code under test may catch Exception broadly
    pass


def _alarm(signum, frame):
    raise Timeout()


def deserialise(data):
    from vc2_conformance.bitstream import BitstreamReader, Deserialiser, parse_stream
    from vc2_conformance.pseudocode.state import State

    r = BitstreamReader(BytesIO(data))
    with Deserialiser(r) as des:
        parse_stream(des, State())
    return des.context


def serialise(context):
    from vc2_conformance.bitstream import BitstreamWriter, Serialiser, parse_stream
    from vc2_conformance.pseudocode.state import State

    f = BytesIO()
    w = BitstreamWriter(f)
    with Serialiser(w, context) as ser:
        parse_stream(ser, State())
    w.flush()
    return f.getvalue()


def check_bytes(data, limit=3):
    """-> ('unparseable', why) | ('ok', None) | ('violation', why)"""
    import copy

    signal.signal(signal.SIGALRM, _alarm)
    signal.alarm(limit)
    try:
        try:
            ctx = deserialise(data)
        except Timeout:
            return ("too-big", None)
        except Exception as e:  # noqa  - not parseable to completion: outside the property
            return ("unparseable", type(e).__name__)
        try:
            out = serialise(copy.deepcopy(ctx))
        except Timeout:
            return ("too-big", None)
        except Exception as e:  # noqa
            return ("violation", "re-serialising the deserialised description raised %s: %s" % (type(e).__name__, str(e)[:120]))
        if out != data:
            n = next((i for i, (a, b) in enumerate(zip(out, data)) if a != b), min(len(out), len(data)))
            return ("violation", "re-serialised bytes differ at byte %d (lengths %d vs %d)" % (n, len(out), len(data)))
        try:
            ctx2 = deserialise(out)
        except Timeout:
            return ("too-big", None)
        if ctx2 != ctx:
            return ("violation", "re-deserialising the output gives a different description")
        return ("ok", None)
    finally:
        signal.alarm(0)


def corpus_streams():
    """streams kept from earlier sessions (corpus/C06.json): low-delay streams whose slice_bytes fraction is below one,
    so that some slices have NO bytes and their bounded blocks a negative length - made once with the real serialiser
    from edited descriptions; they cannot be produced by the encoder and are therefore stored, not regenerated"""
    import json, os
    import common

    p = os.path.join(common.CORPUS_DIR, "C06.json")
    if not os.path.exists(p):
        return []
    with open(p) as f:
        d = json.load(f)
    return [bytes.fromhex(h) for k in sorted(d) for h in d[k]]


def seed_streams():
    """conformant streams for several configurations, built by the REAL encoder/serialiser"""
    out = []
    for prof in ("hq", "ld"):
        for pcm in (0, 1):
            cfg = S.Config(profile=prof, pcm=pcm)
            n2 = "P1" if pcm else "A3"
            for hist in (["H0", "P0", n2, "Z4", "E"], ["H0", "F0", "D0.1.0.0", "D0.1.1.0", "A0", "H0", "F1", "D1.2.0.0", "E"],
                         ["H0", "Z0", "E", "/", "H0", "P4", "P5", "E"]):
                data, flat, versions = S.build(cfg, hist)
                out.append((data, flat))
    return out


def mutate(rng, data, flat):
    b = bytearray(data)
    c = rng.random()
    offs = []
    pos = 0
    for m in flat:
        if m is None:
            continue
        offs.append((pos, m))
        pos += m["len"]
    pics = [(o, m) for (o, m) in offs if m["kind"] in "PD"]
    if c < 0.25 and pics:   # slice payload of a picture / fragment: lengths, coefficients, padding bits
        o, m = rng.choice(pics)
        lo, hi = o + 13 + 4, o + m["len"]
        for _ in range(rng.choice([1, 1, 2, 3])):
            i = rng.randrange(lo * 8, hi * 8)
            b[i // 8] ^= 1 << (7 - i % 8)
    elif c < 0.45:       # parse-info fields of a random unit: parse code / next offset / previous offset
        o, m = rng.choice(offs)
        f = rng.random()
        if f < 0.3:
            b[o + 4] = rng.choice([0x00, 0x10, 0x20, 0x30, 0xC8, 0xE8, 0xCC, 0xEC, rng.randrange(256)])
        elif f < 0.75:
            b[o + 5:o + 9] = rng.choice([0, 1, 5, 12, 13, 14, m["len"], m["len"] + 1, max(0, m["len"] - 1), rng.randrange(0, 64)]).to_bytes(4, "big")
        else:
            b[o + 9:o + 13] = rng.randrange(0, 70).to_bytes(4, "big")
    elif c < 0.65:    # bit flips
        for _ in range(rng.choice([1, 1, 2, 4])):
            i = rng.randrange(len(b) * 8)
            b[i // 8] ^= 1 << (7 - i % 8)
    elif c < 0.8:     # byte substitution
        for _ in range(rng.choice([1, 2, 3])):
            b[rng.randrange(len(b))] = rng.choice([0, 0xFF, rng.randrange(256)])
    elif c < 0.9:     # insertion / deletion
        i = rng.randrange(len(b))
        if rng.random() < 0.5:
            del b[i:i + rng.randrange(1, 4)]
        else:
            b[i:i] = bytes(rng.randrange(256) for _ in range(rng.randrange(1, 4)))
    else:             # truncation
        del b[rng.randrange(1, len(b)):]
    return bytes(b)


# F3 (fixed): padding / auxiliary data whose next_parse_offset is below 13
DIRECTED = [bytes.fromhex("42424344" "30" "00000000" "00000000" "42424344" "10" "00000000" "0000000D"),
            bytes.fromhex("42424344" "20" "00000005" "00000000" "42424344" "10" "00000000" "00000005"),
            bytes.fromhex("42424344" "30" "0000000C" "00000000")]


def framework_des_ser(stmts, bits):
    """C06 on the REAL framework for an arbitrary bit string: deserialise with the program; if that
    parses, serialising the description must give back exactly the bits consumed.
    -> (outcome, detail): 'unparseable' | 'ok' | 'violation'"""
    import copy
    from props import c21
    from vc2_conformance.bitstream.io import BitstreamWriter
    from vc2_conformance.bitstream.serdes import Serialiser

    d = c21.real_deserialise(stmts, bits)
    if d[0] != "OK":
        return "unparseable", d[1]
    consumed = d[2]
    if consumed > len(bits):
        return "unparseable", "ran into the byte padding"
    f = BytesIO()
    w = BitstreamWriter(f)
    try:
        with Serialiser(w, copy.deepcopy(d[1])) as ser:
            c21.run_prog(ser, stmts)
        by, bi = w.tell()
        w.flush()
    except Exception as e:  # noqa
        return "violation", "re-serialising the deserialised description fails: %s: %s" % (type(e).__name__, str(e)[:120])
    n = by * 8 + (7 - bi)
    out = c21.bits_of_bytes(f.getvalue())[:n]
    if n != consumed or out != [bool(b) for b in bits[:consumed]]:
        return "violation", "re-serialised bits differ: read %d bits %s, wrote %d bits %s" % (
            consumed, "".join("1" if b else "0" for b in bits[:consumed]), n, "".join("1" if b else "0" for b in out))
    d2 = c21.real_deserialise(stmts, out + [bool(b) for b in bits[consumed:]])
    if d2[0] != "OK" or c21.canon(d2[1]) != c21.canon(d[1]):
        return "violation", "re-deserialising the output gives a different description"
    return "ok", None


class Prop(object):
    id = "C06"
    lean_modules = ["VC2.Props.C06"]
    status = "partial"
    rule = ("conformant streams of 12 kinds (HQ/LD x frames/fields x pictures, fragments, padding, auxiliary data, repeated headers, two sequences) built by the real encoder, "
            "and their mutations (parse codes, next/previous offsets incl. values below 13, bit flips, byte substitutions, insertions/deletions, truncations): every byte string the "
            "REAL deserialiser parses to completion is re-serialised by the REAL serialiser and compared byte for byte, and the output re-deserialised and compared; "
            "plus: API lint of bitstream/vc2.py, and canonicity of all seven primitive codes compared between model and real reader/writer on all bit strings up to 12 (14) bits")
    trusted = ["hand-written models Serdes.lean / SerdesCodec.lean / BitIO.lean tied to the code by the sd and io correspondences (C21, C20)",
               "the tie of bitstream/vc2.py (value-dependent description programs) to the framework model is the API lint plus the byte-level round trip; vc2.py's programs are not translated"]
    assumptions = ["inputs the deserialiser does not parse to completion (exceptions) are outside the property; inputs needing more than 3 s (declared sizes far above the bound) are skipped and counted"]

    def correspond(self, ctx):
        rng = ctx.rng("c06")
        self._bad = None
        bad = lint_vc2()
        ctx.corr_names.append("API lint: bitstream/vc2.py touches the stream only through the modelled serdes API")
        ctx.evaluations += 1
        if bad:
            ctx.broke("correspondence", "API lint of bitstream/vc2.py", bad[:10])
        # canonical codes: model vs real on all short bit strings
        lines, exp = [], []
        from vc2_conformance.bitstream.io import BitstreamReader, BitstreamWriter

        maxlen = ctx.n(11, 14)
        for kind, rd, wr in (("uint", "read_uint", "write_uint"), ("sint", "read_sint", "write_sint")):
            for n in range(0, maxlen + 1):
                for bits in itertools.product([0, 1], repeat=n):
                    data = bytearray((n + 7) // 8 + 1)
                    for i, bb in enumerate(bits):
                        if bb:
                            data[i // 8] |= 1 << (7 - i % 8)
                    # pad the tail with zeros inside the same byte: the reader stops at its own end
                    r = BitstreamReader(BytesIO(bytes(data[:(n + 7) // 8])))
                    lines.append("sd C %s %s" % (kind, "".join(map(str, bits)) or "-"))
                    try:
                        v = getattr(r, rd)()
                        by, bi = r.tell()
                        used = by * 8 + (7 - bi)
                        if used > n:
                            exp.append("FAIL")  # ran into the byte padding: the n-bit string alone is not a whole code
                            continue
                        f = BytesIO()
                        w = BitstreamWriter(f)
                        getattr(w, wr)(v)
                        wb, wbi = w.tell()
                        wlen = wb * 8 + (7 - wbi)
                        w.flush()
                        wbits = [(f.getvalue()[i // 8] >> (7 - i % 8)) & 1 for i in range(wlen)]
                        exp.append("CANON %d" % wlen if list(bits[:used]) == wbits and wlen == used else "NONCANON")
                    except EOFError:
                        exp.append("FAIL")
        # the model's reader treats the end of the list as EOF; align expectations: a string whose code
        # needs the padding zeros is FAIL in both
        ctx.diff("sd C exp-Golomb canonicity on all bit strings up to %d bits: model == real reader+writer" % maxlen, lines, exp)
        if any(e == "NONCANON" for e in exp) and not self._bad:
            i = [e for e in exp].index("NONCANON")
            self._bad = {"kind": "code", "line": lines[i], "why": "the real reader accepts a non-canonical code: re-writing the value gives other bits"}
        # framework level, arbitrary bits: random description programs on RANDOM bit strings (this also walks
        # into bounded-block overrun, which the model does not have: there the real code alone is examined)
        from props import c21
        ctx.corr_names.append("REAL Deserialiser -> Serialiser on random description programs and RANDOM bit strings: the bits consumed are reproduced")
        frng = ctx.rng("c06fw")
        dl, de = [], []
        for _ in range(ctx.n(600, 8000)):
            stmts, _c = c21.make_case(frng)
            nb = 8 * frng.randrange(0, 50)
            style = frng.random()
            p1 = 0.5 if style < 0.4 else (0.85 if style < 0.7 else 0.15)
            bits = [frng.random() < p1 for _ in range(nb)]
            res, why = framework_des_ser(stmts, bits)
            # the same deserialisation on the model (bounded-block overrun included)
            d = c21.real_deserialise(stmts, bits)
            dl.append("sd D %s :: %s" % (" ".join(c21.show_stmts(stmts)), "".join("1" if b else "0" for b in bits) or "-"))
            de.append("OK %s| %d" % (c21.canon(d[1])[2:-1], len(bits) - d[2]) if d[0] == "OK" else "FAIL")
            ctx.evaluations += 1
            ctx.count("framework:%s" % res)
            if res == "ok":
                ctx.distinct.add(hash((" ".join(c21.show_stmts(stmts)), tuple(bits))))
            if res == "violation" and not self._bad:
                self._bad = {"kind": "framework", "program": c21.show_stmts(stmts), "bits": "".join("1" if b else "0" for b in bits), "why": why}
        ctx.diff("sd deserialise RANDOM bit strings with random programs (values completed by 1-bits past the end of bounded blocks): model == real Deserialiser", dl, de)
        # bitstream/vc2.py itself, one run at a time: the serdes calls it makes while deserialising a stream are folded
        # into a static program of the model (harness/vc2trace.py); the model must deserialise the same bits to the
        # same description, and re-serialising must make vc2.py issue exactly the same calls
        import vc2trace as T
        import codecgen as G

        trng = ctx.rng("c06trace")
        seeds = seed_streams()
        streams = [d for d, _ in seeds] + corpus_streams()
        for _ in range(ctx.n(40, 600)):
            cf = G.rand_config(trng)
            try:
                streams.append(G.encode(cf, G.rand_pictures(trng, cf, n=trng.choice([1, 2])))[0])
            except Exception:  # noqa  - configurations the encoder rejects
                continue
        for _ in range(ctx.n(150, 3000)):
            data, flat = trng.choice(seeds)
            streams.append(mutate(trng, data, flat))
        tl, te = [], []
        for data in streams:
            if len(data) > 6000:
                ctx.count("trace:too-big")
                continue
            signal.signal(signal.SIGALRM, _alarm)
            signal.alarm(3)
            try:
                dctx, ev = T.deserialise_traced(data)
            except Timeout:
                ctx.count("trace:too-big")
                continue
            except Exception:  # noqa  - not parseable to completion: outside the property
                ctx.count("trace:unparseable")
                continue
            finally:
                signal.alarm(0)
            if len(ev) > 20000:
                ctx.count("trace:too-big")
                continue
            try:
                prog = T.trace_to_program(ev)
            except T.Untranslatable as e:
                ctx.count("trace:untranslatable:%s" % e)
                continue
            ctx.count("trace:ok")
            ctx.evaluations += 1
            tl.append("sd D %s :: %s" % (" ".join(c21.show_stmts(prog)), T.bits_of(data)))
            te.append("OK %s| 0" % T.canon(dctx)[2:-1])
            # ... and the other direction: the model serialises the real description with that program to the real bytes
            tl.append("sd S %s :: %s" % (" ".join(c21.show_stmts(prog)), T.canon(dctx)[2:-1]))
            te.append("OK %s | %s" % (T.bits_of(data), T.canon(dctx)[2:-1]))
            signal.alarm(10)
            try:
                out, ev2 = T.serialise_traced(dctx)
            except Timeout:
                ctx.count("trace:too-big")
                continue
            except Exception as e:  # noqa
                if not self._bad:
                    self._bad = {"kind": "bytes", "bytes": data.hex(), "why": "re-serialising the deserialised description raised %s" % type(e).__name__}
                continue
            finally:
                signal.alarm(0)
            if ev2 != ev and not self._bad:
                i = next((k for k, (a, b) in enumerate(zip(ev, ev2)) if a != b), min(len(ev), len(ev2)))
                self._bad = {"kind": "bytes", "bytes": data.hex(),
                             "why": "bitstream/vc2.py makes different serdes calls when serialising what it deserialised (call %d: %s vs %s)" % (
                                 i, ev[i] if i < len(ev) else None, ev2[i] if i < len(ev2) else None)}
        ctx.diff("sd D/S programs TRACED from bitstream/vc2.py on real streams (encoder output, seeds, mutants): model description == real Deserialiser's, "
                 "model bits == the stream; the Serialiser replays the same calls", tl, te)
        # byte-level round trip on the real code
        ctx.corr_names.append("REAL deserialise -> serialise -> compare bytes -> re-deserialise on conformant streams and their mutations")
        seeds = seed_streams()
        cases = [(d, None) for d in DIRECTED] + [(d, None) for d in corpus_streams()] + [(s[0], s[1]) for s in seeds]
        ctx.count("bytes:corpus-streams", len(corpus_streams()))
        for _ in range(ctx.n(2500, 40000)):
            data, flat = rng.choice(seeds)
            cases.append((mutate(rng, data, flat), flat))
        for data, _ in cases:
            res, why = check_bytes(data)
            ctx.evaluations += 1
            ctx.count("bytes:%s%s" % (res, ":" + why if res == "unparseable" else ""))
            if res == "ok":
                ctx.distinct.add(hash(data))
            if res == "violation" and not self._bad:
                self._bad = {"kind": "bytes", "bytes": data.hex(), "why": why}
        ctx.traces += len(cases)

    def findings(self, ctx):
        return [self._bad] if self._bad else []

    def search(self, ctx):
        rng = ctx.rng("search")
        for d in DIRECTED:
            res, why = check_bytes(d)
            if res == "violation":
                return {"kind": "bytes", "bytes": d.hex(), "why": why}
        seeds = seed_streams()
        for _ in range(ctx.n(6000, 80000)):
            data, flat = rng.choice(seeds)
            m = mutate(rng, data, flat)
            res, why = check_bytes(m)
            if res == "violation":
                return {"kind": "bytes", "bytes": m.hex(), "why": why}
        return None

    def replay(self, ctx, path):
        with open(path) as f:
            r = json.load(f)
        fi = r.get("failing_input")
        if not fi or fi.get("kind") != "bytes":
            print("replay names broken obligations only:", r.get("broken_obligations"), fi)
            return 1
        res, why = check_bytes(bytes.fromhex(fi["bytes"]))
        print("replay ->", res, why or "")
        return 1 if res == "violation" else 0


PROP = Prop()
