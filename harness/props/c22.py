"""C22 — picture generators produce well-formed pictures for any regular format."""
import copy
import json
import sys

sys.path.insert(0, "/repo/tests")

GENERATORS = ["moving_sprite", "static_sprite", "linear_ramps", "mid_gray", "white_noise"]


def rand_format(rng):
    from sample_codec_features import MINIMAL_CODEC_FEATURES as CF
    from vc2_conformance.pseudocode.video_parameters import set_source_defaults
    from vc2_data_tables import (BaseVideoFormats, ColorDifferenceSamplingFormats, SourceSamplingModes, PictureCodingModes,
                                 PresetColorPrimaries, PresetColorMatrices, PresetTransferFunctions)

    if rng.random() < 0.5:
        vp = copy.deepcopy(CF["video_parameters"])
    else:
        vp = set_source_defaults(rng.choice(list(BaseVideoFormats)))
    cdf = ColorDifferenceSamplingFormats(rng.choice([0, 1, 2]))
    ss = SourceSamplingModes(rng.choice([0, 1]))
    pcm = PictureCodingModes(rng.choice([0, 1]))
    mw = 2 if cdf >= 1 else 1
    mh = (2 if cdf == 2 else 1) * (2 if (ss == 1 or pcm == 1) else 1)
    w = mw * rng.choice([1, 2, 3, 4, 5, 8, 9, 12, 19, 40])
    h = mh * rng.choice([1, 2, 3, 4, 7, 10])
    if rng.random() < 0.12:
        # frames LARGER than the (128-line, aspect-corrected) sprite, with non-square pixels: the sprite is then neither
        # clipped nor square
        w, h = mw * rng.choice([66, 88, 100, 176]), mh * rng.choice([33, 36, 40])
        vp["pixel_aspect_ratio_numer"], vp["pixel_aspect_ratio_denom"] = rng.choice([(12, 11), (10, 11), (4, 3), (1, 1), (2, 3)])
    d = rng.choice([8, 8, 10, 12, 16, 2, 1])
    vp.update(frame_width=w, frame_height=h, clean_width=w, clean_height=h, left_offset=0, top_offset=0,
              color_diff_format_index=cdf, source_sampling=ss, top_field_first=rng.random() < 0.5)
    style = rng.random()
    if style < 0.4:
        vp.update(luma_offset=0, luma_excursion=(1 << d) - 1, color_diff_offset=1 << (d - 1), color_diff_excursion=(1 << d) - 1)
    elif style < 0.7:
        vp.update(luma_offset=rng.randrange(0, 1 << max(1, d - 2)), luma_excursion=max(1, (1 << d) - 1 - rng.randrange(0, 1 << max(1, d - 1))),
                  color_diff_offset=rng.randrange(0, 1 << d), color_diff_excursion=max(1, (1 << d) - rng.randrange(1, 1 << max(1, d - 1))))
    vp["color_primaries_index"] = rng.choice(list(PresetColorPrimaries))
    vp["color_matrix_index"] = rng.choice(list(PresetColorMatrices))
    vp["transfer_function_index"] = rng.choice(list(PresetTransferFunctions))
    return vp, pcm


def sibling_format(rng, vp, pcm):
    """the same format with ONE signal-range value changed (anything remembered from the previous format must not leak)"""
    vp = copy.deepcopy(vp)
    k = rng.choice(["color_diff_excursion", "color_diff_excursion", "luma_excursion", "color_diff_offset", "luma_offset"])
    vp[k] = max(1, int(vp[k]) // rng.choice([2, 4, 16])) if "excursion" in k else int(vp[k]) // 2
    if int(vp[k]) == 0 and "excursion" in k:
        vp[k] = 1
    return vp, pcm


def check_generator(name, vp, pcm):
    from vc2_conformance import picture_generators as PG

    # the coded size and depths, computed here (12.? picture_dimensions / video_depth in words): luma = frame, colour
    # difference halved horizontally for 4:2:2 and both ways for 4:2:0, heights halved for fields; depth = bits of the excursion
    cdf = int(vp["color_diff_format_index"])
    lw, lh = vp["frame_width"], vp["frame_height"]
    cw, ch = (lw // 2 if cdf >= 1 else lw), (lh // 2 if cdf == 2 else lh)
    if int(pcm) == 1:
        lh, ch = lh // 2, ch // 2
    dl, dc = int(vp["luma_excursion"]).bit_length(), int(vp["color_diff_excursion"]).bit_length()
    dd = {"Y": (lw, lh, dl, None), "C1": (cw, ch, dc, None), "C2": (cw, ch, dc, None)}
    pics = list(getattr(PG, name)(vp, pcm))
    if len(pics) < 1:
        return "%s yields no picture" % name
    if pcm == 1 and len(pics) % 2:
        return "%s yields %d pictures although pictures are fields" % (name, len(pics))
    for i, p in enumerate(pics):
        if p["pic_num"] != i:
            return "%s picture %d is numbered %s" % (name, i, p["pic_num"])
        for c, (w, h, depth, _) in dd.items():
            a = p[c]
            if len(a) != h or any(len(r) != w for r in a):
                return "%s picture %d component %s has %d rows x %s, expected %dx%d" % (name, i, c, len(a), sorted(set(len(r) for r in a)), h, w)
            for r in a:
                for v in r:
                    if not isinstance(v, int) or isinstance(v, bool) or not (0 <= v <= (1 << depth) - 1):
                        return "%s picture %d component %s sample %r outside the %d-bit depth" % (name, i, c, v, depth)
    return None


def describe(vp, pcm):
    return {"pcm": int(pcm), "video_parameters": dict((k, (int(v) if not isinstance(v, bool) else v)) for k, v in vp.items())}


def pg_lines(rng, n):
    import numpy as np
    from vc2_conformance.picture_generators import progressive_to_pictures
    from vc2_conformance.pseudocode.video_parameters import VideoParameters
    from vc2_data_tables import SourceSamplingModes, PictureCodingModes

    lines, exp = [], []
    for _ in range(n):
        fields, inter, tff = rng.random() < 0.5, rng.random() < 0.5, rng.random() < 0.5
        h = rng.choice([2, 4, 6, 8, 10, 3, 5])
        k = rng.randrange(0, 7)
        vp = VideoParameters(source_sampling=SourceSamplingModes(int(inter)), top_field_first=tff)
        samples = [np.zeros((h, 3, 3)) for _ in range(k)]
        try:
            out = list(progressive_to_pictures(vp, PictureCodingModes(int(fields)), iter(samples)))
            res = " ".join("%d:%d" % (i, a.shape[0]) for i, a in enumerate(out)) or "-"
        except ValueError:
            res = "ERROR"
        lines.append("pg %d %d %d | %s" % (fields, inter, tff, " ".join([str(h)] * k)))
        exp.append(res)
    return lines, exp


class _NP(object):
    """numpy seen through a recorder: np.full's fill values and RandomState.randint's upper ends are noted, so that
    the largest sample mid_gray / white_noise can produce is observed even when a component is empty"""

    def __init__(self, log):
        import numpy

        self._np, self._log = numpy, log
        outer = self

        class _RS(object):
            def __init__(self, seed):
                self._rs = numpy.random.RandomState(seed)

            def randint(self, low, high, size, dtype=int):
                outer._log.append(int(high) - 1)
                return self._rs.randint(low, high, size, dtype=dtype)

        class _Random(object):
            RandomState = _RS

        self.random = _Random()

    def full(self, shape, value, *a, **k):
        self._log.append(int(value))
        return self._np.full(shape, value, *a, **k)

    def __getattr__(self, k):
        return getattr(self._np, k)


def rand_any_format(rng):
    """a format for the shape correspondence: regular AND irregular sizes, any pixel aspect ratio, excursions from 0"""
    from sample_codec_features import MINIMAL_CODEC_FEATURES as CF
    from vc2_data_tables import ColorDifferenceSamplingFormats, SourceSamplingModes, PictureCodingModes

    vp = copy.deepcopy(CF["video_parameters"])
    cdf = rng.choice([0, 1, 2])
    w = rng.choice([1, 2, 3, 4, 5, 6, 7, 8, 9, 12, 16, 17, 24, 40, 130, 200])
    h = rng.choice([1, 2, 3, 4, 5, 6, 7, 8, 10, 12, 16, 129, 132])
    if rng.random() < 0.5:  # make it regular
        w += w % (2 if cdf else 1)
        m = (2 if cdf == 2 else 1) * 2
        h += (-h) % m
    numer, denom = rng.choice([(1, 1), (1, 1), (12, 11), (10, 11), (2, 1), (1, 2), (4, 3), (128, 1), (129, 1), (200, 3), (1, 3), (0, 1), (5, 5)])
    le = rng.choice([0, 1, 2, 3, 127, 128, 219, 255, 256, 876, 1023, 65535])
    ce = rng.choice([0, 1, 2, 224, 255, 256, 1023, 4095])
    vp.update(frame_width=w, frame_height=h, clean_width=w, clean_height=h, left_offset=0, top_offset=0,
              color_diff_format_index=ColorDifferenceSamplingFormats(cdf), source_sampling=SourceSamplingModes(rng.choice([0, 1])),
              top_field_first=rng.random() < 0.5, pixel_aspect_ratio_numer=numer, pixel_aspect_ratio_denom=denom,
              luma_offset=rng.choice([0, 16, 64]), luma_excursion=le, color_diff_offset=rng.choice([0, 128, 512]), color_diff_excursion=ce)
    return vp, PictureCodingModes(rng.choice([0, 1]))


def real_shapes(name, n, vp, pcm):
    """run a REAL generator; -> the model's output format: numbers, component shapes, largest producible samples"""
    from vc2_conformance import picture_generators as PG
    from vc2_conformance.color_conversion import float_to_int_clipped

    log = []
    saved = PG.np
    PG.np = _NP(log)
    try:
        kw = {"num_frames": n} if name in ("moving_sprite", "white_noise") else {}
        pics = list(getattr(PG, name)(vp, pcm, **kw))
        if name == "mid_gray":
            tops = (log[0], log[1])
        elif name == "white_noise":
            tops = (log[0], log[1]) if log else (None, None)
        else:
            tops = (int(float_to_int_clipped(1e9, vp["luma_offset"], vp["luma_excursion"])),
                    int(float_to_int_clipped(1e9, vp["color_diff_offset"], vp["color_diff_excursion"])))
    except Exception as e:  # noqa
        return "ERROR", type(e).__name__
    finally:
        PG.np = saved

    def sh(a):
        rows = len(a)
        cols = sorted(set(len(r) for r in a))
        return "%dx%s" % (rows, cols[0] if len(cols) == 1 else ("?" if cols else "*"))

    body = " ".join("%d:%s/%s/%s" % (p["pic_num"], sh(p["Y"]), sh(p["C1"]), sh(p["C2"])) for p in pics) or "-"
    return "%s | %s %s" % (body, tops[0], tops[1]), None


def ps_lines(rng, n, count):
    lines, exp = [], []
    prev = None
    for i in range(n):
        if prev is not None and i % 3 == 2:
            vp, pcm = sibling_format(rng, *prev)     # (anything remembered from the previous format must not leak)
        else:
            vp, pcm = rand_any_format(rng)
        prev = (vp, pcm)
        for name in GENERATORS:
            frames = rng.choice([0, 1, 1, 2, 3, 10]) if name in ("moving_sprite", "white_noise") else 1
            out, err = real_shapes(name, frames, vp, pcm)
            count("ps:%s:%s" % (name, "error:" + err if err else "pictures"))
            lines.append("ps %s %d %d %d %d %d %d %d %d %d %d %d" % (
                name, frames, vp["frame_width"], vp["frame_height"], int(vp["color_diff_format_index"]), int(vp["source_sampling"]), int(pcm),
                int(bool(vp["top_field_first"])), vp["pixel_aspect_ratio_numer"], vp["pixel_aspect_ratio_denom"], vp["luma_excursion"], vp["color_diff_excursion"]))
            exp.append(out)
    return lines, exp


class Prop(object):
    id = "C22"
    lean_modules = ["VC2.Props.C22", "VC2.Props.C22Generators"]
    status = "partial"
    rule = ("regular formats (frame sizes that are multiples of the subsampling and of 2 x vertical subsampling for interlaced sources / field coding; widths 1-80 incl. widths for which the "
            "moving sprite leaves the frame; 4:4:4/4:2:2/4:2:0; progressive/interlaced; frames/fields; both field orders; offsets/excursions incl. non-full-range; all colour primaries, "
            "matrices and transfer functions; depths 1-16) x the five REAL generators: at least one picture, an even number for fields, numbered from 0, exact component sizes, integer "
            "samples within depth; plus progressive_to_pictures on dummy arrays vs the model (count and heights); plus the five REAL generators vs the size model on regular and "
            "IRREGULAR formats (widths 1-200, heights 1-132, pixel aspect ratios incl. 0:1, 129:1, excursions 0-65535, 0-10 frames)")
    trusted = ["models PictureGen.lean (counts, heights, numbering, clipping) and PictureShape.lean (array-size semantics of the five generators and of "
               "progressive_to_pictures / from_xyz / from_444, picture numbers, mid_gray / white_noise sample values) tied by the pg and ps correspondences",
               "numpy and PIL behave as the size model says (validated by ps on regular and irregular formats, incl. the cases numpy rejects)",
               "the floating-point colour pipeline (color_conversion.py) is not modelled: its result enters only through round-and-clip"]
    assumptions = ["regular formats as the property states"]

    def correspond(self, ctx):
        rng = ctx.rng("pg")
        self._bad = None
        lines, exp = pg_lines(rng, ctx.n(500, 6000))
        ctx.diff("pg progressive_to_pictures (count, numbering, heights) on dummy samples: model == real", lines, exp)
        import warnings

        with warnings.catch_warnings():
            warnings.simplefilter("ignore")  # (excursion 0 makes the real colour pipeline divide by zero: NaN warnings)
            lines, exp = ps_lines(rng, ctx.n(400, 5000), ctx.count)
        ctx.diff("ps the five REAL generators on regular AND irregular formats (odd sizes, any pixel aspect ratio, excursions from 0, 0-10 frames): "
                 "numbers, component shapes, largest producible samples, or which call raises: model == real", lines, exp)
        ctx.corr_names.append("the five REAL generators on regular formats: count, parity, numbering, sizes, sample ranges")
        prev = None
        for i in range(ctx.n(120, 2500)):
            vp, pcm = sibling_format(rng, *prev) if (prev is not None and i % 3 == 2) else rand_format(rng)
            prev = (vp, pcm)
            for name in GENERATORS:
                try:
                    why = check_generator(name, vp, pcm)
                except Exception as e:  # noqa
                    why = "%s raised %s: %s" % (name, type(e).__name__, str(e)[:160])
                ctx.evaluations += 1
                ctx.count("gen:%s" % name)
                if why and not self._bad:
                    self._bad = {"format": describe(vp, pcm), "generator": name, "why": why}
            ctx.distinct.add(hash(json.dumps(describe(vp, pcm), sort_keys=True)))

    def findings(self, ctx):
        return [self._bad] if self._bad else []

    def search(self, ctx):
        rng = ctx.rng("search")
        prev = None
        for i in range(ctx.n(400, 5000)):
            vp, pcm = sibling_format(rng, *prev) if (prev is not None and i % 3 == 2) else rand_format(rng)
            for name in GENERATORS:
                try:
                    why = check_generator(name, vp, pcm)
                except Exception as e:  # noqa
                    why = "%s raised %s: %s" % (name, type(e).__name__, str(e)[:160])
                if why:
                    r = {"format": describe(vp, pcm), "generator": name, "why": why}
                    if prev is not None:
                        r["previous_format"] = describe(*prev)   # (the failure may depend on what was generated just before)
                    return r
            prev = (vp, pcm)
        return None

    def replay(self, ctx, path):
        from sample_codec_features import MINIMAL_CODEC_FEATURES as CF
        from vc2_conformance.pseudocode.video_parameters import VideoParameters
        from vc2_data_tables import PictureCodingModes

        with open(path) as f:
            r = json.load(f)
        fi = r.get("failing_input")
        if not fi:
            print("replay names broken obligations only:", r.get("broken_obligations"))
            return 1
        base = copy.deepcopy(CF["video_parameters"])
        if fi.get("previous_format"):
            pv = VideoParameters((k, type(base[k])(v)) for k, v in fi["previous_format"]["video_parameters"].items())
            for name in GENERATORS:
                try:
                    check_generator(name, pv, PictureCodingModes(fi["previous_format"]["pcm"]))
                except Exception:  # noqa
                    pass
        vp = VideoParameters((k, type(base[k])(v)) for k, v in fi["format"]["video_parameters"].items())
        why = check_generator(fi["generator"], vp, PictureCodingModes(fi["format"]["pcm"]))
        print("replay ->", why or "property holds")
        return 1 if why else 0


PROP = Prop()
