"""C14 — lossy encoding fills slices to the byte budget with the smallest qindex."""
import json

import codecgen as G


def rand_vals(rng, n, style):
    if style == "zero":
        return [0] * n
    if style == "small":
        return [rng.choice([0, 0, 1, -1, 2, -3, 7]) for _ in range(n)]
    if style == "big":
        return [rng.choice([0, 2 ** 20, -(2 ** 30), 12345, -1]) for _ in range(n)]
    return [rng.randrange(-600, 600) for _ in range(n)]


def rand_comp(rng, nonzero_qm=False):
    n = rng.randrange(0, 9)
    vals = rand_vals(rng, n, rng.choice(["zero", "small", "big", "noise", "noise"]))
    lo = 1 if nonzero_qm else 0
    qm = [rng.randrange(lo, 9) for _ in range(n)]
    return vals, qm


def words(l):
    return " ".join(map(str, l)) if l else "-"


def comps_of(slice_):
    from vc2_conformance.encoder.pictures import ComponentCoeffs, SliceCoeffs

    (yv, ym), (c1v, c1m), (c2v, c2m) = slice_
    return SliceCoeffs(ComponentCoeffs(yv, ym), ComponentCoeffs(c1v, c1m), ComponentCoeffs(c2v, c2m))


def rand_slice(rng, nonzero_qm=False):
    y = rand_comp(rng, nonzero_qm)
    c1 = rand_comp(rng, nonzero_qm)
    n = len(c1[0])
    c2 = (rand_vals(rng, n, rng.choice(["small", "noise"])), [rng.randrange(1 if nonzero_qm else 0, 9) for _ in range(n)])
    return (y, c1, c2)


def slice_words(s):
    return " / ".join(words(x) for comp in s for x in comp)


def gen_case(rng):
    """one input of the slice makers (plain data, so that it can be stored in a replay file)"""
    sx, sy = rng.randrange(1, 4), rng.randrange(1, 3)
    n = sx * sy
    nz = rng.random() < 0.3
    slices = [rand_slice(rng, nz) for _ in range(n)]
    minq = rng.choice([0, 0, 0, 1, 2, 5])
    kind = rng.choice(["hq", "hq", "ld", "lossless"])
    case = {"kind": kind, "sx": sx, "sy": sy, "slices": slices, "minq": minq}
    if kind == "lossless":
        if rng.random() < 0.5:  # component lengths around the 8-bit boundary (each `1` costs 4 bits)
            L = rng.choice([254, 255, 256, 257, 509, 510, 511, 512, 513, 765, 768])
            big = ([1] * (2 * L), [0] * (2 * L))
            which = rng.randrange(3)    # the long component is Y, C1 or C2
            slices[0] = tuple(big if k == which else slices[0][k] for k in range(3))
            if which:  # c1 and c2 have equally many coefficients
                other = 3 - which
                slices[0] = tuple(([0] * (2 * L), [0] * (2 * L)) if k == other else slices[0][k] for k in range(3))
        case["min_scaler"] = rng.choice([1, 1, 2])
    elif kind == "hq":
        # from the minimum up to slices of several multiples of 255 bytes (safe scalers 1..5), with scaler overrides below,
        # at and above the safe value
        case["pb"] = 4 * n + rng.choice([0, 1, 3, n, 5 * n, 40 * n, 300 * n + 7, 520 * n + 3, 600 * n, 800 * n + 5, 1100 * n + 1])
        case["min_scaler"] = rng.choice([1, 1, 2, 3, 4, 6])
    else:
        case["pb"] = n * rng.choice([1, 2, 3, 8, 20]) + rng.randrange(0, n)
    return case


def eval_case(case):
    """the property's statements evaluated on the REAL slice makers alone -> reason or None"""
    from vc2_conformance.encoder import pictures as P
    from vc2_conformance.encoder.exceptions import InsufficientHQPictureBytesError, InsufficientLDPictureBytesError
    from vc2_conformance.bitstream.exp_golomb import signed_exp_golomb_length

    kind, sx, sy, minq = case["kind"], case["sx"], case["sy"], case["minq"]
    slices = [tuple((list(v), list(m)) for v, m in s) for s in case["slices"]]
    n = sx * sy
    grid = [[comps_of(slices[y * sx + x]) for x in range(sx)] for y in range(sy)]

    def bits(coeffs):
        c = list(coeffs)
        while c and c[-1] == 0:
            c.pop()
        return sum(signed_exp_golomb_length(v) for v in c)

    def quantize(q, vals, qm):   # independent of the project's quantize_coeffs / forward_quant
        out = []
        for v, m in zip(vals, qm):
            i = max(0, q - m)
            base = 2 ** (i // 4)
            r = i % 4
            f = 4 * base if r == 0 else ((503829 * base + 52958) // 105917 if r == 1 else ((665857 * base + 58854) // 117708 if r == 2 else (440253 * base + 32722) // 65444))
            mag = (4 * abs(v)) // f
            out.append(mag if v > 0 else -mag)
        return out

    if kind == "lossless":
        scaler, td = P.make_transform_data_hq_lossless(grid, case["min_scaler"])
        for s in td["hq_slices"]:
            for comp in ("y", "c1", "c2"):
                ln = s["slice_%s_length" % comp]
                if not (0 <= ln <= 255):
                    return "lossless: slice_%s_length = %d does not fit 8 bits (scaler %d)" % (comp, ln, scaler)
                if 8 * scaler * ln < bits(s["%s_transform" % comp]):
                    return "lossless: slice_%s_length too small for its coefficients" % comp
        return None
    if kind == "hq":
        pb = case["pb"]
        try:
            scaler, td = P.make_transform_data_hq_lossy(pb, grid, minq, case["min_scaler"])
        except InsufficientHQPictureBytesError:
            return None
        if scaler < case["min_scaler"]:
            return "hq: slice_size_scaler %d below the requested minimum %d" % (scaler, case["min_scaler"])
        total = 0
        for i, s in enumerate(td["hq_slices"]):
            lens = [s["slice_y_length"], s["slice_c1_length"], s["slice_c2_length"]]
            if any(not (0 <= ln <= 255) for ln in lens):
                return "hq: length fields %s do not fit 8 bits (scaler %d)" % (lens, scaler)
            total += 4 + scaler * sum(lens)
            q = s["qindex"]
            if q < minq:
                return "hq: qindex %d below the minimum %d" % (q, minq)
            for comp, ln, (v, m) in zip(("y", "c1", "c2"), lens, slices[i]):
                if list(s["%s_transform" % comp]) != quantize(q, v, m):
                    return "hq: %s coefficients are not the source coefficients quantised with the slice's qindex %d" % (comp, q)
                if bits(s["%s_transform" % comp]) > 8 * scaler * ln:
                    return "hq: %s coefficients do not fit their length" % comp
            if q > minq:  # minimality: q - 1 must not fit
                budget = 8 * scaler * sum(lens)
                tot = sum(-(-bits(quantize(q - 1, v, m)) // (8 * scaler)) * 8 * scaler for (v, m) in slices[i])
                if tot <= budget:
                    return "hq: qindex %d chosen although %d already fits" % (q, q - 1)
        if not (pb - scaler < total <= pb):
            return "hq: total slice bytes %d vs picture_bytes %d (scaler %d)" % (total, pb, scaler)
        return None
    pb = case["pb"]
    try:
        td = P.make_transform_data_ld_lossy(pb, grid, minq)
    except InsufficientLDPictureBytesError:
        return None
    for i, s in enumerate(td["ld_slices"]):
        x, y = i % sx, i // sx
        sb = ((y * sx + x + 1) * pb) // n - ((y * sx + x) * pb) // n     # slice_bytes (13.5.3.2)
        field = (8 * sb - 7 - 1).bit_length()                           # intlog2
        yl = s["slice_y_length"]
        if not (0 <= yl < max(1, 2 ** field)):
            return "ld: slice_y_length %d does not fit its %d-bit field" % (yl, field)
        avail = 8 * sb - 7 - field
        if bits(s["y_transform"]) + bits(s["c_transform"]) > avail:
            return "ld: coefficients need more than the %d bits of the slice" % avail
        if bits(s["y_transform"]) > yl:
            return "ld: luma coefficients need more than slice_y_length = %d bits" % yl
        q = s["qindex"]
        if q < minq:
            return "ld: qindex below minimum"
        (yv, ym), (c1v, c1m), (c2v, c2m) = slices[i]
        cv = [v for pair in zip(c1v, c2v) for v in pair]
        cm = [v for pair in zip(c1m, c2m) for v in pair]
        if list(s["y_transform"]) != quantize(q, yv, ym) or list(s["c_transform"]) != quantize(q, cv, cm):
            return "ld: coefficients are not the source coefficients quantised with the slice's qindex %d" % q
        if q > minq and bits(quantize(q - 1, yv, ym)) + bits(quantize(q - 1, cv, cm)) <= avail:
            return "ld: qindex %d chosen although %d already fits" % (q, q - 1)
    return None


def property_on_real(rng):
    case = gen_case(rng)
    try:
        why = eval_case(case)
    except Exception as e:  # noqa
        why = "exception %s: %s" % (type(e).__name__, str(e)[:160])
    return why, (case if why else None)


class Prop(object):
    id = "C14"
    lean_modules = ["VC2.Props.C14"]
    status = "partial"
    rule = ("random coefficient sets (0-8 coefficients per component: zeros, small, noise, up to 2^30; quantisation-matrix entries 0-8, also matrices without a zero entry), "
            "targets, alignments and minimum indices for quantize_to_fit; slice grids 1-3 x 1-2 with picture_bytes from the minimum upwards for make_transform_data_hq_lossy / "
            "_ld_lossy / _hq_lossless incl. minimum qindex and slice-size-scaler overrides and component lengths around 255/256/510/512 bytes: qindex, quantised coefficients, "
            "scaler and all length fields compared with the model; the property's statements are also evaluated on the real results directly")
    trusted = ["hand-written model SliceFit.lean over T1-translated kernels (forward_quant, signed_exp_golomb_length, slice_bytes, intlog2, get_safe_lossy_hq_slice_size_scaler) tied by the sl correspondence"]
    assumptions = ["the index search terminates within 600 candidates (coefficients below 2^40); that the qindex fits its bitstream field is NOT claimed (finding F6)"]

    def correspond(self, ctx):
        from vc2_conformance.encoder import pictures as P
        from vc2_conformance.encoder.exceptions import InsufficientHQPictureBytesError, InsufficientLDPictureBytesError

        rng = ctx.rng("sl")
        self._bad = None
        lines, exp = [], []
        for _ in range(ctx.n(500, 8000)):
            nz = rng.random() < 0.3
            sets = [rand_comp(rng, nz) for _ in range(rng.choice([1, 2, 3]))]
            align = rng.choice([1, 1, 8, 16, 24])
            target = rng.choice([0, 1, 7, 8, 20, 64, 200, 1000])
            minq = rng.choice([0, 0, 0, 1, 3, 10])
            q, qsets = P.quantize_to_fit(target, [P.ComponentCoeffs(v, m) for v, m in sets], align, minq)
            lines.append("sl Q %d %d %d | %s" % (target, align, minq, " ; ".join("%s / %s" % (words(v), words(m)) for v, m in sets)))
            exp.append("%d | %s" % (q, " ; ".join(",".join(map(str, c)) or "-" for c in qsets)))
        ctx.diff("sl quantize_to_fit: chosen qindex and quantised coefficients, model == real", lines, exp)
        lines, exp = [], []
        for i in range(ctx.n(400, 6000)):
            sx, sy = rng.randrange(1, 4), rng.randrange(1, 3)
            n = sx * sy
            nz = rng.random() < 0.3
            slices = [rand_slice(rng, nz) for _ in range(n)]
            grid = [[comps_of(slices[y * sx + x]) for x in range(sx)] for y in range(sy)]
            minq = rng.choice([0, 0, 1, 4])
            k = i % 3
            if k == 0:
                # lossless, with component lengths around the 8-bit boundary (each `1` costs 4 bits)
                if rng.random() < 0.5:
                    L = rng.choice([254, 255, 256, 257, 509, 510, 511, 512, 513, 765, 768])
                    slices[0] = (([1] * (2 * L), [0] * (2 * L)), slices[0][1], slices[0][2])
                    grid = [[comps_of(slices[y * sx + x]) for x in range(sx)] for y in range(sy)]
                ms = rng.choice([1, 1, 2, 5])
                scaler, td = P.make_transform_data_hq_lossless(grid, ms)
                lines.append("sl L %d | %s" % (ms, " ; ".join(" / ".join(words(c[0]) for c in s) for s in slices)))
                exp.append("%d | %s" % (scaler, " ; ".join("%d,%d,%d" % (s["slice_y_length"], s["slice_c1_length"], s["slice_c2_length"]) for s in td["hq_slices"])))
            elif k == 1:
                pb = 4 * n + rng.choice([-1, 0, 1, 3, n, 5 * n, 40 * n, 300 * n + 7, 600 * n, 1100 * n + 1, 70000])
                ms = rng.choice([1, 1, 2, 3, 4])
                lines.append("sl H %d %d %d %d %d | %s" % (pb, minq, ms, sx, sy, " ; ".join(slice_words(s) for s in slices)))
                try:
                    scaler, td = P.make_transform_data_hq_lossy(pb, grid, minq, ms)
                    exp.append("%d | %s" % (scaler, " ; ".join("%d,%d,%d,%d" % (s["qindex"], s["slice_y_length"], s["slice_c1_length"], s["slice_c2_length"]) for s in td["hq_slices"])))
                except InsufficientHQPictureBytesError:
                    exp.append("INSUFFICIENT")
            else:
                pb = n * rng.choice([1, 1, 2, 3, 8, 20]) + rng.randrange(0, n)
                lines.append("sl D %d %d %d %d | %s" % (pb, minq, sx, sy, " ; ".join(slice_words(s) for s in slices)))
                try:
                    td = P.make_transform_data_ld_lossy(pb, grid, minq)
                    exp.append(" ; ".join("%d,%d" % (s["qindex"], s["slice_y_length"]) for s in td["ld_slices"]))
                except InsufficientLDPictureBytesError:
                    exp.append("INSUFFICIENT")
        ctx.diff("sl make_transform_data_hq_lossless / hq_lossy / ld_lossy: scaler, qindex and length fields, model == real", lines, exp)
        ctx.corr_names.append("the property's statements evaluated on the real slice makers")
        for _ in range(ctx.n(800, 12000)):
            why, case = property_on_real(rng)
            ctx.evaluations += 1
            if why and not self._bad:
                self._bad = {"case": case, "why": why}

    def findings(self, ctx):
        return [self._bad] if self._bad else []

    def search(self, ctx):
        rng = ctx.rng("search")
        for _ in range(ctx.n(4000, 60000)):
            why, case = property_on_real(rng)
            if why:
                return {"case": case, "why": why}
        return None

    def replay(self, ctx, path):
        with open(path) as f:
            r = json.load(f)
        fi = r.get("failing_input")
        if not fi:
            print("replay names broken obligations only:", r.get("broken_obligations"))
            return 1
        why = eval_case(fi["case"])
        print("replay ->", why or "property holds")
        return 1 if why else 0


PROP = Prop()
