"""C14 — lossy encoding fills slices to the byte budget with the smallest qindex."""
import json

import codecgen as G


def rand_vals(rng, n, style):
    if style == "zero":
        return [0] * n
    if style == "small":
        return [rng.choice([0, 0, 1, -1, 2, -3, 7]) for _ in range(n)]
    if style == "big":
        return [rng.choice([0, 2 ** 20, -(2 ** 30), 12345, -1]) for _ in range(n)]
    return [rng.randrange(-600, 600) for _ in range(n)]


def rand_comp(rng, nonzero_qm=False):
    n = rng.randrange(0, 9)
    vals = rand_vals(rng, n, rng.choice(["zero", "small", "big", "noise", "noise"]))
    lo = 1 if nonzero_qm else 0
    qm = [rng.randrange(lo, 9) for _ in range(n)]
    return vals, qm


def words(l):
    return " ".join(map(str, l)) if l else "-"


def comps_of(slice_):
    from vc2_conformance.encoder.pictures import ComponentCoeffs, SliceCoeffs

    (yv, ym), (c1v, c1m), (c2v, c2m) = slice_
    return SliceCoeffs(ComponentCoeffs(yv, ym), ComponentCoeffs(c1v, c1m), ComponentCoeffs(c2v, c2m))


def rand_slice(rng, nonzero_qm=False):
    y = rand_comp(rng, nonzero_qm)
    c1 = rand_comp(rng, nonzero_qm)
    n = len(c1[0])
    c2 = (rand_vals(rng, n, rng.choice(["small", "noise"])), [rng.randrange(1 if nonzero_qm else 0, 9) for _ in range(n)])
    return (y, c1, c2)


def slice_words(s):
    return " / ".join(words(x) for comp in s for x in comp)


def property_on_real(rng):
    """the property's statements evaluated on the REAL functions alone (used by the search)"""
    from vc2_conformance.encoder import pictures as P
    from vc2_conformance.encoder.exceptions import InsufficientHQPictureBytesError, InsufficientLDPictureBytesError
    from vc2_conformance.bitstream.exp_golomb import signed_exp_golomb_length

    sx, sy = rng.randrange(1, 4), rng.randrange(1, 3)
    n = sx * sy
    nz = rng.random() < 0.3
    slices = [rand_slice(rng, nz) for _ in range(n)]
    grid = [[comps_of(slices[y * sx + x]) for x in range(sx)] for y in range(sy)]
    minq = rng.choice([0, 0, 0, 1, 2, 5])
    kind = rng.choice(["hq", "ld", "lossless"])

    def bits(coeffs):
        c = list(coeffs)
        while c and c[-1] == 0:
            c.pop()
        return sum(signed_exp_golomb_length(v) for v in c)

    if kind == "lossless":
        if rng.random() < 0.5:  # component lengths around the 8-bit boundary (each `1` costs 4 bits)
            L = rng.choice([254, 255, 256, 257, 509, 510, 511, 512, 513, 765, 768])
            slices[0] = (([1] * (2 * L), [0] * (2 * L)), slices[0][1], slices[0][2])
            grid = [[comps_of(slices[y * sx + x]) for x in range(sx)] for y in range(sy)]
        scaler, td = P.make_transform_data_hq_lossless(grid, rng.choice([1, 1, 2]))
        for s in td["hq_slices"]:
            for comp in ("y", "c1", "c2"):
                ln = s["slice_%s_length" % comp]
                if not (0 <= ln <= 255):
                    return "lossless: slice_%s_length = %d does not fit 8 bits (scaler %d)" % (comp, ln, scaler), (kind, sx, sy, slices, minq)
                if 8 * scaler * ln < bits(s["%s_transform" % comp]):
                    return "lossless: slice_%s_length too small for its coefficients" % comp, (kind, sx, sy, slices, minq)
        return None, None
    if kind == "hq":
        pb = 4 * n + rng.choice([0, 1, 3, n, 5 * n, 40 * n, 300 * n + 7])
        try:
            scaler, td = P.make_transform_data_hq_lossy(pb, grid, minq, rng.choice([1, 1, 3]))
        except InsufficientHQPictureBytesError:
            return None, None
        total = 0
        for i, s in enumerate(td["hq_slices"]):
            lens = [s["slice_y_length"], s["slice_c1_length"], s["slice_c2_length"]]
            if any(not (0 <= ln <= 255) for ln in lens):
                return "hq: length fields %s do not fit 8 bits" % lens, (kind, sx, sy, slices, minq, pb)
            total += 4 + scaler * sum(lens)
            q = s["qindex"]
            if q < minq:
                return "hq: qindex %d below the minimum %d" % (q, minq), (kind, sx, sy, slices, minq, pb)
            for comp, ln in zip(("y", "c1", "c2"), lens):
                if bits(s["%s_transform" % comp]) > 8 * scaler * ln:
                    return "hq: %s coefficients do not fit their length" % comp, (kind, sx, sy, slices, minq, pb)
            # minimality: q - 1 must not fit
            if q > minq:
                sl = slices[i]
                budget = 8 * scaler * sum(lens)
                tot = 0
                for (v, m) in sl:
                    qc = P.quantize_coeffs(q - 1, v, m)
                    tot += -(-bits(qc) // (8 * scaler)) * 8 * scaler
                if tot <= budget:
                    return "hq: qindex %d chosen although %d already fits" % (q, q - 1), (kind, sx, sy, slices, minq, pb)
        if not (pb - scaler < total <= pb):
            return "hq: total slice bytes %d vs picture_bytes %d (scaler %d)" % (total, pb, scaler), (kind, sx, sy, slices, minq, pb)
        return None, None
    pb = n * rng.choice([1, 2, 3, 8, 20]) + rng.randrange(0, n)
    try:
        td = P.make_transform_data_ld_lossy(pb, grid, minq)
    except InsufficientLDPictureBytesError:
        return None, None
    from vc2_conformance.pseudocode.slice_sizes import slice_bytes
    from vc2_conformance.pseudocode.state import State
    from vc2_conformance.pseudocode.vc2_math import intlog2

    st = State(slices_x=sx, slices_y=sy, slice_bytes_numerator=pb, slice_bytes_denominator=n)
    for i, s in enumerate(td["ld_slices"]):
        sb = slice_bytes(st, i % sx, i // sx)
        field = intlog2(8 * sb - 7)
        yl = s["slice_y_length"]
        if not (0 <= yl < max(1, 2 ** field)):
            return "ld: slice_y_length %d does not fit its %d-bit field" % (yl, field), (kind, sx, sy, slices, minq, pb)
        avail = 8 * sb - 7 - field
        if bits(s["y_transform"]) + bits(s["c_transform"]) > avail:
            return "ld: coefficients need more than the %d bits of the slice" % avail, (kind, sx, sy, slices, minq, pb)
        q = s["qindex"]
        if q < minq:
            return "ld: qindex below minimum", (kind, sx, sy, slices, minq, pb)
        if q > minq:
            (yv, ym), (c1v, c1m), (c2v, c2m) = slices[i]
            cv, cm = P.interleave(c1v, c2v), P.interleave(c1m, c2m)
            if bits(P.quantize_coeffs(q - 1, yv, ym)) + bits(P.quantize_coeffs(q - 1, cv, cm)) <= avail:
                return "ld: qindex %d chosen although %d already fits" % (q, q - 1), (kind, sx, sy, slices, minq, pb)
    return None, None


class Prop(object):
    id = "C14"
    lean_modules = ["VC2.Props.C14"]
    status = "partial"
    rule = ("random coefficient sets (0-8 coefficients per component: zeros, small, noise, up to 2^30; quantisation-matrix entries 0-8, also matrices without a zero entry), "
            "targets, alignments and minimum indices for quantize_to_fit; slice grids 1-3 x 1-2 with picture_bytes from the minimum upwards for make_transform_data_hq_lossy / "
            "_ld_lossy / _hq_lossless incl. minimum qindex and slice-size-scaler overrides and component lengths around 255/256/510/512 bytes: qindex, quantised coefficients, "
            "scaler and all length fields compared with the model; the property's statements are also evaluated on the real results directly")
    trusted = ["hand-written model SliceFit.lean over T1-translated kernels (forward_quant, signed_exp_golomb_length, slice_bytes, intlog2, get_safe_lossy_hq_slice_size_scaler) tied by the sl correspondence"]
    assumptions = ["the index search terminates within 600 candidates (coefficients below 2^40); that the qindex fits its bitstream field is NOT claimed (finding F6)"]

    def correspond(self, ctx):
        from vc2_conformance.encoder import pictures as P
        from vc2_conformance.encoder.exceptions import InsufficientHQPictureBytesError, InsufficientLDPictureBytesError

        rng = ctx.rng("sl")
        self._bad = None
        lines, exp = [], []
        for _ in range(ctx.n(500, 8000)):
            nz = rng.random() < 0.3
            sets = [rand_comp(rng, nz) for _ in range(rng.choice([1, 2, 3]))]
            align = rng.choice([1, 1, 8, 16, 24])
            target = rng.choice([0, 1, 7, 8, 20, 64, 200, 1000])
            minq = rng.choice([0, 0, 0, 1, 3, 10])
            q, qsets = P.quantize_to_fit(target, [P.ComponentCoeffs(v, m) for v, m in sets], align, minq)
            lines.append("sl Q %d %d %d | %s" % (target, align, minq, " ; ".join("%s / %s" % (words(v), words(m)) for v, m in sets)))
            exp.append("%d | %s" % (q, " ; ".join(",".join(map(str, c)) or "-" for c in qsets)))
        ctx.diff("sl quantize_to_fit: chosen qindex and quantised coefficients, model == real", lines, exp)
        lines, exp = [], []
        for i in range(ctx.n(400, 6000)):
            sx, sy = rng.randrange(1, 4), rng.randrange(1, 3)
            n = sx * sy
            nz = rng.random() < 0.3
            slices = [rand_slice(rng, nz) for _ in range(n)]
            grid = [[comps_of(slices[y * sx + x]) for x in range(sx)] for y in range(sy)]
            minq = rng.choice([0, 0, 1, 4])
            k = i % 3
            if k == 0:
                # lossless, with component lengths around the 8-bit boundary (each `1` costs 4 bits)
                if rng.random() < 0.5:
                    L = rng.choice([254, 255, 256, 257, 509, 510, 511, 512, 513, 765, 768])
                    slices[0] = (([1] * (2 * L), [0] * (2 * L)), slices[0][1], slices[0][2])
                    grid = [[comps_of(slices[y * sx + x]) for x in range(sx)] for y in range(sy)]
                ms = rng.choice([1, 1, 2, 5])
                scaler, td = P.make_transform_data_hq_lossless(grid, ms)
                lines.append("sl L %d | %s" % (ms, " ; ".join(" / ".join(words(c[0]) for c in s) for s in slices)))
                exp.append("%d | %s" % (scaler, " ; ".join("%d,%d,%d" % (s["slice_y_length"], s["slice_c1_length"], s["slice_c2_length"]) for s in td["hq_slices"])))
            elif k == 1:
                pb = 4 * n + rng.choice([-1, 0, 1, 3, n, 5 * n, 40 * n, 300 * n + 7, 70000])
                ms = rng.choice([1, 1, 3])
                lines.append("sl H %d %d %d %d %d | %s" % (pb, minq, ms, sx, sy, " ; ".join(slice_words(s) for s in slices)))
                try:
                    scaler, td = P.make_transform_data_hq_lossy(pb, grid, minq, ms)
                    exp.append("%d | %s" % (scaler, " ; ".join("%d,%d,%d,%d" % (s["qindex"], s["slice_y_length"], s["slice_c1_length"], s["slice_c2_length"]) for s in td["hq_slices"])))
                except InsufficientHQPictureBytesError:
                    exp.append("INSUFFICIENT")
            else:
                pb = n * rng.choice([1, 1, 2, 3, 8, 20]) + rng.randrange(0, n)
                lines.append("sl D %d %d %d %d | %s" % (pb, minq, sx, sy, " ; ".join(slice_words(s) for s in slices)))
                try:
                    td = P.make_transform_data_ld_lossy(pb, grid, minq)
                    exp.append(" ; ".join("%d,%d" % (s["qindex"], s["slice_y_length"]) for s in td["ld_slices"]))
                except InsufficientLDPictureBytesError:
                    exp.append("INSUFFICIENT")
        ctx.diff("sl make_transform_data_hq_lossless / hq_lossy / ld_lossy: scaler, qindex and length fields, model == real", lines, exp)
        ctx.corr_names.append("the property's statements evaluated on the real slice makers")
        for _ in range(ctx.n(800, 12000)):
            why, case = property_on_real(rng)
            ctx.evaluations += 1
            if why and not self._bad:
                self._bad = {"case": case, "why": why}

    def findings(self, ctx):
        return [self._bad] if self._bad else []

    def search(self, ctx):
        rng = ctx.rng("search")
        for _ in range(ctx.n(4000, 60000)):
            why, case = property_on_real(rng)
            if why:
                return {"case": case, "why": why}
        return None

    def replay(self, ctx, path):
        with open(path) as f:
            r = json.load(f)
        fi = r.get("failing_input")
        print("replay: re-run ./check C14 (the failing case is regenerated from the seed recorded in the replay file):", (fi or {}).get("why"))
        return 1


PROP = Prop()
