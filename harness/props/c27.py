"""C27 — fixed-entry dictionaries never hold undeclared keys and pickle faithfully."""
import pickle

from vc2_conformance.fixeddict import fixeddict, FixedDictKeyError

# a module-level type so that it can be pickled
ProbeDict = fixeddict("ProbeDict", "a", "b", "c", "_d", module=__name__)


def types():
    from vc2_conformance.pseudocode.state import State
    from vc2_conformance.pseudocode.video_parameters import VideoParameters
    from vc2_conformance.codec_features import CodecFeatures
    from vc2_conformance.bitstream.vc2_fixeddicts import ParseInfo, SequenceHeader, SourceParameters

    return [ProbeDict, State, VideoParameters, CodecFeatures, ParseInfo, SequenceHeader, SourceParameters]


def parse_kvs(s):
    return [] if s == "-" else [(kv.split("=")[0], int(kv.split("=")[1])) for kv in s.split(",")]


def run_fd(cls, ops):
    d = cls()
    out = []
    for op in ops:
        c, arg = op[0], op[2:]
        try:
            if c == "N":
                d2 = cls(parse_kvs(arg))
                d = d2
            elif c == "S":
                (k, v), = parse_kvs(arg)
                d[k] = v
            elif c == "D":
                (k, v), = parse_kvs(arg)
                d.setdefault(k, v)
            elif c == "U":
                d.update(parse_kvs(arg))
            elif c == "I":
                d |= dict(parse_kvs(arg))
            elif c == "C":
                d2 = d.copy()
                assert type(d2) is cls, "copy changed the type"
                d = d2
            elif c == "P":
                d2 = pickle.loads(pickle.dumps(d))
                assert type(d2) is cls, "pickle changed the type"
                assert d2 == d, "pickle changed the contents"
                d = d2
            elif c == "K":
                out.append(",".join("%s=%d" % (k, v) for k, v in d.items()) or "-")
                continue
            out.append("ok")
        except FixedDictKeyError as e:
            out.append("ERR:%s" % e.key)
        except Exception as e:  # noqa
            out.append("CRASH:%s" % type(e).__name__)
    return " ".join(out)


def gen_prog(rng, declared):
    keys = list(declared[:4]) + ["bogus", "zz"]

    def kv():
        return "%s=%d" % (rng.choice(keys if rng.random() < 0.35 else declared[:4]), rng.randrange(0, 9))

    def kvs():
        n = rng.randrange(0, 4)
        ks = []
        for _ in range(n):
            x = kv()
            if x.split("=")[0] not in [y.split("=")[0] for y in ks]:
                ks.append(x)
        return ",".join(ks) or "-"

    ops = []
    for _ in range(rng.randrange(2, 10)):
        c = rng.choice("NSSDUUIIICPK")
        if c in "SD":
            ops.append("%s:%s" % (c, kv()))
        elif c in "NUI":
            ops.append("%s:%s" % (c, kvs()))
        else:
            ops.append(c)
    ops.append("K")
    return ops


def violates(cls, ops):
    """Property predicate on the REAL type: after the ops only declared keys are held, undeclared keys
    were rejected with FixedDictKeyError, pickling/copy preserve type and contents."""
    out = run_fd(cls, ops)
    if "CRASH" in out:
        return "unexpected exception: %s" % out
    listing = out.split()[-1]
    held = [] if listing == "-" else [kv.split("=")[0] for kv in listing.split(",")]
    bad = [k for k in held if k not in cls.entry_objs]
    if bad:
        return "holds undeclared key(s) %s after %s" % (bad, ops)
    return None


class Prop(object):
    id = "C27"
    lean_modules = ["VC2.Props.C27"]
    status = "full"
    rule = ("random programs of construction, item assignment, setdefault, update, |=, copy, pickle round trip and key listing "
            "with declared and undeclared keys on ProbeDict, State, VideoParameters, CodecFeatures, ParseInfo, SequenceHeader, SourceParameters; "
            "per-op outcome (ok / FixedDictKeyError key) and final items compared with the model; distinct = distinct (type, program)")
    trusted = ["hand-written model lean/VC2/Model/FixedDict.lean tied to the code by this correspondence",
               "introspection of which dict key-adding operations the generated classes override (harness/gen_tables.py), re-run every time",
               "pickle, dict"]
    assumptions = ["operations are the ones the property lists; calling __init__ again on a live instance, or dict.__setitem__(d, ...) explicitly, is out of scope",
                   "values are integers in the model (the code never inspects values)"]

    def correspond(self, ctx):
        rng = ctx.rng("fd")
        lines, exp = [], []
        for cls in types():
            declared = list(cls.entry_objs)
            for _ in range(ctx.n(400, 6000)):
                ops = gen_prog(rng, declared)
                lines.append("fd 1 %s %s" % (",".join(declared), " ".join(ops)))
                exp.append(run_fd(cls, ops))
            ctx.count("fd:type:%s" % cls.__name__, ctx.n(400, 6000))
        ctx.diff("fd operation programs on the library's fixeddict types: model == real", lines, exp)

    def search(self, ctx):
        rng = ctx.rng("search")
        for cls in types():
            declared = list(cls.entry_objs)
            # directed cases first
            for ops in (["I:bogus=1", "K"], ["U:bogus=1", "K"], ["S:bogus=1", "K"], ["D:bogus=1", "K"], ["N:bogus=1", "K"]):
                why = violates(cls, ops)
                if why:
                    return {"type": cls.__name__, "ops": ops, "why": why}
            for _ in range(ctx.n(500, 5000)):
                ops = gen_prog(rng, declared)
                why = violates(cls, ops)
                if why:
                    return {"type": cls.__name__, "ops": ops, "why": why}
        return None

    def replay(self, ctx, path):
        import json

        with open(path) as f:
            r = json.load(f)
        fi = r.get("failing_input")
        if not fi:
            print("replay names broken obligations only:", r.get("broken_obligations"))
            return 1
        cls = [c for c in types() if c.__name__ == fi["type"]][0]
        why = violates(cls, fi["ops"])
        print("replay %s %s -> %s" % (fi["type"], fi["ops"], why or "property holds"))
        return 1 if why else 0


PROP = Prop()
