"""C27 — fixed-entry dictionaries never hold undeclared keys and pickle faithfully."""
import pickle

from vc2_conformance.fixeddict import fixeddict, FixedDictKeyError

# a module-level type so that it can be pickled
ProbeDict = fixeddict("ProbeDict", "a", "b", "c", "_d", module=__name__)
# a DIFFERENT fixeddict type used as the source of update / |= (it declares the keys the probes try to smuggle in)
ForeignDict = fixeddict("ForeignDict", "a", "b", "c", "_d", "bogus", "zz", module=__name__)


def types():
    from vc2_conformance.pseudocode.state import State
    from vc2_conformance.pseudocode.video_parameters import VideoParameters
    from vc2_conformance.codec_features import CodecFeatures
    from vc2_conformance.bitstream.vc2_fixeddicts import ParseInfo, SequenceHeader, SourceParameters

    return [ProbeDict, State, VideoParameters, CodecFeatures, ParseInfo, SequenceHeader, SourceParameters]


def parse_kvs(s):
    return [] if s == "-" else [(kv.split("=")[0], int(kv.split("=")[1])) for kv in s.split(",")]


_FOREIGN = {}


def source(cls, kind, kvs):
    """the argument of update / |= in one of the shapes a caller may use"""
    import collections

    if kind == "p":
        return list(kvs)
    if kind == "d":
        return dict(kvs)
    if kind == "o":
        return collections.OrderedDict(kvs)
    if kind == "g":
        return (kv for kv in kvs)
    if kind == "f":   # another fixeddict TYPE, declaring this type's first keys plus the ones the probes try to smuggle in
        foreign = _FOREIGN.get(cls)
        if foreign is None:
            foreign = _FOREIGN[cls] = fixeddict("Foreign" + cls.__name__, *(list(cls.entry_objs)[:4] + ["bogus", "zz"]))
        return foreign(kvs)
    if kind == "s":   # the same type, as far as the keys allow
        if all(k in cls.entry_objs for k, _ in kvs):
            return cls(kvs)
        return dict(kvs)
    raise ValueError(kind)


def model_ops(ops):
    """the model's view: an update is an update whatever the shape of its argument"""
    return [op[:2] + op[4:] if (op[0] in "UIN" and len(op) > 3 and op[3] == "/") else op for op in ops]


def run_fd(cls, ops):
    d = cls()
    out = []
    for op in ops:
        c, arg = op[0], op[2:]
        kind = "d" if c == "I" else "p"
        if c in "UIN" and len(arg) > 1 and arg[1] == "/":
            kind, arg = arg[0], arg[2:]
        try:
            if c == "N":
                # construction from pairs, a dict, keyword arguments, a fixeddict of the same or of ANOTHER type
                d2 = cls(**dict(parse_kvs(arg))) if kind == "k" else cls(source(cls, kind, parse_kvs(arg)))
                d = d2
            elif c == "S":
                (k, v), = parse_kvs(arg)
                d[k] = v
            elif c == "D":
                (k, v), = parse_kvs(arg)
                d.setdefault(k, v)
            elif c == "U":
                if kind == "k":
                    d.update(**dict(parse_kvs(arg)))
                else:
                    d.update(source(cls, kind, parse_kvs(arg)))
            elif c == "I":
                d |= source(cls, "d" if kind in "pgk" else kind, parse_kvs(arg))
            elif c == "C":
                d2 = d.copy()
                assert type(d2) is cls, "copy changed the type"
                d = d2
            elif c == "P":
                d2 = pickle.loads(pickle.dumps(d))
                assert type(d2) is cls, "pickle changed the type"
                assert d2 == d, "pickle changed the contents"
                d = d2
            elif c == "K":
                out.append(",".join("%s=%d" % (k, v) for k, v in d.items()) or "-")
                continue
            out.append("ok")
        except FixedDictKeyError as e:
            out.append("ERR:%s" % e.key)
        except Exception as e:  # noqa
            out.append("CRASH:%s" % type(e).__name__)
    return " ".join(out)


def gen_prog(rng, declared):
    keys = list(declared[:4]) + ["bogus", "zz"]

    def kv():
        return "%s=%d" % (rng.choice(keys if rng.random() < 0.35 else declared[:4]), rng.randrange(0, 9))

    def kvs():
        n = rng.randrange(0, 4)
        ks = []
        for _ in range(n):
            x = kv()
            if x.split("=")[0] not in [y.split("=")[0] for y in ks]:
                ks.append(x)
        return ",".join(ks) or "-"

    ops = []
    for _ in range(rng.randrange(2, 10)):
        c = rng.choice("NSSDUUIIICPK")
        if c in "SD":
            ops.append("%s:%s" % (c, kv()))
        elif c == "N":
            ops.append("%s:%s/%s" % (c, rng.choice("pdokfsf"), kvs()))
        elif c in "UI":
            ops.append("%s:%s/%s" % (c, rng.choice("pdogkfsff" if c == "U" else "dofsf"), kvs()))
        else:
            ops.append(c)
    ops.append("K")
    return ops


def violates(cls, ops):
    """Property predicate on the REAL type: after the ops only declared keys are held, undeclared keys
    were rejected with FixedDictKeyError, pickling/copy preserve type and contents."""
    out = run_fd(cls, ops)
    if "CRASH" in out:
        return "unexpected exception: %s" % out
    listing = out.split()[-1]
    held = [] if listing == "-" else [kv.split("=")[0] for kv in listing.split(",")]
    bad = [k for k in held if k not in cls.entry_objs]
    if bad:
        return "holds undeclared key(s) %s after %s" % (bad, ops)
    return None


class Prop(object):
    id = "C27"
    lean_modules = ["VC2.Props.C27"]
    status = "full"
    rule = ("random programs of construction, item assignment, setdefault, update, |=, copy, pickle round trip and key listing "
            "with declared and undeclared keys on ProbeDict, State, VideoParameters, CodecFeatures, ParseInfo, SequenceHeader, SourceParameters; "
            "per-op outcome (ok / FixedDictKeyError key) and final items compared with the model; distinct = distinct (type, program)")
    trusted = ["hand-written model lean/VC2/Model/FixedDict.lean tied to the code by this correspondence",
               "introspection of which dict key-adding operations the generated classes override (harness/gen_tables.py), re-run every time",
               "pickle, dict"]
    assumptions = ["operations are the ones the property lists; calling __init__ again on a live instance, or dict.__setitem__(d, ...) explicitly, is out of scope",
                   "values are integers in the model (the code never inspects values)"]

    def correspond(self, ctx):
        rng = ctx.rng("fd")
        lines, exp = [], []
        for cls in types():
            declared = list(cls.entry_objs)
            for _ in range(ctx.n(400, 6000)):
                ops = gen_prog(rng, declared)
                lines.append("fd 1 %s %s" % (",".join(declared), " ".join(model_ops(ops))))
                exp.append(run_fd(cls, ops))
            ctx.count("fd:type:%s" % cls.__name__, ctx.n(400, 6000))
        ctx.diff("fd operation programs on the library's fixeddict types: model == real", lines, exp)

    def search(self, ctx):
        rng = ctx.rng("search")
        for cls in types():
            declared = list(cls.entry_objs)
            # directed cases first
            for ops in (["I:bogus=1", "K"], ["U:bogus=1", "K"], ["U:f/bogus=1", "K"], ["I:f/bogus=1", "K"], ["U:k/bogus=1", "K"], ["U:o/zz=1", "K"], ["S:bogus=1", "K"], ["D:bogus=1", "K"], ["N:bogus=1", "K"], ["N:f/bogus=1", "K"], ["N:k/bogus=1", "K"]):
                why = violates(cls, ops)
                if why:
                    return {"type": cls.__name__, "ops": ops, "why": why}
            for _ in range(ctx.n(500, 5000)):
                ops = gen_prog(rng, declared)
                why = violates(cls, ops)
                if why:
                    return {"type": cls.__name__, "ops": ops, "why": why}
        return None

    def replay(self, ctx, path):
        import json

        with open(path) as f:
            r = json.load(f)
        fi = r.get("failing_input")
        if not fi:
            print("replay names broken obligations only:", r.get("broken_obligations"))
            return 1
        cls = [c for c in types() if c.__name__ == fi["type"]][0]
        why = violates(cls, fi["ops"])
        print("replay %s %s -> %s" % (fi["type"], fi["ops"], why or "property holds"))
        return 1 if why else 0


PROP = Prop()
