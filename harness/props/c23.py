"""C23 — raw picture files round-trip and comparisons are exact."""
import copy
import json
import os
import re
import shutil
import sys
import tempfile
import contextlib
import io
from io import BytesIO

sys.path.insert(0, "/repo/tests")


def base_vp():
    from sample_codec_features import MINIMAL_CODEC_FEATURES as CF

    return copy.deepcopy(CF["video_parameters"])


def make_format(w, h, cdf, pcm, dy, dc):
    """video parameters with the given frame size, colour-difference format, depths (via the excursions)"""
    from vc2_data_tables import ColorDifferenceSamplingFormats, PictureCodingModes

    vp = base_vp()
    vp["frame_width"], vp["frame_height"] = w, h
    vp["clean_width"], vp["clean_height"] = w, h
    vp["color_diff_format_index"] = ColorDifferenceSamplingFormats(cdf)
    vp["luma_offset"], vp["luma_excursion"] = 0, (1 << dy) - 1
    vp["color_diff_offset"], vp["color_diff_excursion"] = 0, (1 << dc) - 1
    return vp, PictureCodingModes(pcm)


def dims_of(vp, pcm):
    from vc2_conformance.dimensions_and_depths import compute_dimensions_and_depths

    return compute_dimensions_and_depths(vp, pcm)


def rand_format(rng, big=False):
    cdf = rng.choice([0, 1, 2])
    pcm = rng.choice([0, 1])
    w = rng.randrange(1, 5) * (2 if cdf else 1)
    h = rng.randrange(1, 4) * (2 if cdf == 2 else 1) * (2 if pcm else 1)
    dy = rng.choice([1, 2, 7, 8, 9, 10, 12, 15, 16, 17, 24, 31, 32, 33, 40, 63, 64] + ([65, 100, 128] if big else []))
    dc = rng.choice([1, 3, 8, 10, 16, 17, 32, 33, 64])
    return make_format(w, h, cdf, pcm, dy, dc)


def rand_value(rng, d):
    c = rng.random()
    top = (1 << d) - 1
    if c < 0.2:
        return top
    if c < 0.3:
        return 0
    if c < 0.4:
        return top >> 1
    if c < 0.5:
        return min(top, (top >> 1) + 1)
    return rng.randrange(0, top + 1)


def rand_picture(rng, dims, num=None):
    pic = {"pic_num": rng.choice([0, 1, 7, 2 ** 31, 2 ** 32 - 1]) if num is None else num}
    for c, (w, h, d, bps) in dims.items():
        pic[c] = [[rand_value(rng, d) for _ in range(w)] for _ in range(h)]
    return pic


def dims_words(dims):
    return " ".join("%d %d %d" % (w, h, d) for (w, h, d, bps) in dims.values())


def flat(pic, dims):
    return [v for c in dims for row in pic[c] for v in row]


def real_compare(pic_a, meta_a, pic_b, meta_b):
    """write both pictures with the REAL writer and run the REAL compare_pictures -> (code, counts)"""
    from vc2_conformance import file_format
    from vc2_conformance.scripts.vc2_picture_compare import compare_pictures

    d = tempfile.mkdtemp(prefix="c23_")
    try:
        fa, fb = os.path.join(d, "a_0.raw"), os.path.join(d, "b_0.raw")
        file_format.write(pic_a, meta_a[0], meta_a[1], fa)
        file_format.write(pic_b, meta_b[0], meta_b[1], fb)
        out, code = compare_pictures(fa, fb)
        # read back too (round trip through real files)
        back = file_format.read(fa)
    finally:
        shutil.rmtree(d, ignore_errors=True)
    counts = []
    if code in (0, 4):
        for c in ("Y", "C1", "C2"):
            m = re.search(r"%s: Different: .*?, (\d+) pixels? " % c, out)
            counts.append(int(m.group(1)) if m else 0)
    return code, counts, back, out


def perturb(rng, pic, dims):
    """a copy of pic with a few samples changed by interesting amounts; returns (copy, true counts)"""
    q = copy.deepcopy(pic)
    counts = []
    for c, (w, h, d, bps) in dims.items():
        n = 0
        k = rng.choice([0, 0, 1, 1, 2, w * h])
        cells = [(y, x) for y in range(h) for x in range(w)]
        rng.shuffle(cells)
        for (y, x) in cells[:k]:
            v = q[c][y][x]
            top = (1 << d) - 1
            cands = [v + 1, v - 1, v + (1 << 32), v - (1 << 32), v ^ (1 << (d - 1)), top - v, rng.randrange(0, top + 1)]
            cands = [u for u in cands if 0 <= u <= top and u != v]
            if cands:
                q[c][y][x] = rng.choice(cands[:5]) if rng.random() < 0.8 else cands[-1]
                n += 1
        counts.append(n)
    return q, counts


def violates_roundtrip(vp, pcm, pic):
    from vc2_conformance import file_format

    d = tempfile.mkdtemp(prefix="c23_")
    try:
        f = os.path.join(d, "p_3.raw")
        file_format.write(pic, vp, pcm, f)
        back, vp2, pcm2 = file_format.read(f)
    finally:
        shutil.rmtree(d, ignore_errors=True)
    if back != pic or vp2 != vp or pcm2 != pcm:
        return "write/read changed the picture or its metadata"
    return None


def violates_compare(vp, pcm, pic, rng):
    dims = dims_of(vp, pcm)
    q, counts = perturb(rng, pic, dims)
    try:
        code, got, back, out = real_compare(pic, (vp, pcm), q, (vp, pcm))
    except Exception as e:  # noqa  - the comparison of two well-formed pictures of depth <= 64 must give a verdict
        return "compare_pictures raised %s: %s (truly differing pixel counts %s)" % (type(e).__name__, str(e)[:120], counts), q
    want = 0 if sum(counts) == 0 else 4
    if code != want or (code == 4 and got != counts):
        return "compare_pictures -> exit %s counts %s; truly differing pixel counts %s\n%s" % (code, got, counts, out), q
    return None, q


def violates_dirs(rng):
    """directory mode of the REAL compare tool: pictures are paired by the NUMBER in their file name (whatever the padding or
    the rest of the name); the summary counts and the exit status follow from the pairs compared one by one"""
    from vc2_conformance import file_format
    from vc2_conformance.scripts.vc2_picture_compare import main

    vp, pcm = rand_format(rng, False)
    dims = dims_of(vp, pcm)
    start = rng.choice([0, 7, 8, 9, 98])
    k = rng.randrange(1, 5)
    nums = [start + i for i in range(k)]
    pics = [rand_picture(rng, dims, num=n % 7) for n in nums]
    others, changed = [], []
    for p in pics:
        if rng.random() < 0.4:
            q, counts = perturb(rng, p, dims)
            q["pic_num"] = p["pic_num"]
            others.append(q)
            changed.append(sum(counts) > 0)
        else:
            others.append(copy.deepcopy(p))
            changed.append(False)
    d = tempfile.mkdtemp(prefix="c23d_")
    try:
        a, b = os.path.join(d, "a"), os.path.join(d, "b")
        os.mkdir(a)
        os.mkdir(b)
        pa, pb = rng.choice([("picture_%d.raw", "picture_%02d.raw"), ("picture_%d.raw", "out%03d.raw"), ("p_%d.raw", "p_%d.raw")])
        for n, p, q in zip(nums, pics, others):
            file_format.write(p, vp, pcm, os.path.join(a, pa % n))
            file_format.write(q, vp, pcm, os.path.join(b, pb % n))
        out = io.StringIO()
        with contextlib.redirect_stdout(out), contextlib.redirect_stderr(io.StringIO()):
            try:
                code = main([a, b])
            except SystemExit as e:
                code = e.code
            except Exception as e:  # noqa
                return "directory comparison raised %s: %s" % (type(e).__name__, str(e)[:120])
    finally:
        shutil.rmtree(d, ignore_errors=True)
    want_diff = sum(changed)
    want_code = 4 if want_diff else 0
    m = re.search(r"Summary: (\d+) identical, (\d+) different", out.getvalue())
    if code != want_code or not m or (int(m.group(1)), int(m.group(2))) != (k - want_diff, want_diff):
        return ("directory comparison of %d pictures numbered %s (%s vs %s), %d of them different: exit %s, %s"
                % (k, nums, pa, pb, want_diff, code, m.group(0) if m else "no summary"))
    return None


class Prop(object):
    id = "C23"
    lean_modules = ["VC2.Props.C23"]
    status = "full"
    rule = ("bytes_per_sample for depths 1..160; random formats (sizes, 4:4:4/4:2:2/4:2:0, frames/fields, luma/chroma depths 1..64 incl. non-byte multiples, "
            "and up to 128 in the thorough tier) with random and extreme in-range samples: REAL write_picture bytes == model, REAL read_picture of random bytes "
            "(junk in the padding bits) == model, REAL file write/read round trip incl. metadata and picture numbers up to 2^32-1, REAL compare_pictures exit "
            "status and per-component differing-pixel counts == model on pairs differing by +-1, +-2^32, top-bit flips, complements and in metadata")
    trusted = ["hand-written model lean/VC2/Model/FileFormat.lean tied to the code by the ff correspondence",
               "numpy (object arrays, tobytes/frombuffer, count_nonzero, mean), json, os file API; int(str(n)) == n for the picture number",
               "psnr's floating point value is not modelled (only its `is None` test, as sum of squares == 0)"]
    assumptions = ["depth >= 1 (luma/colour-difference excursion >= 1)", "samples within the component's bit depth (the property's 'in-range picture')"]

    def correspond(self, ctx):
        rng = ctx.rng("ff")
        big = ctx.thorough
        # bytes per sample
        lines, exp = [], []
        for d in range(1, 161):
            vp, pcm = make_format(2, 2, 0, 0, d, 8)
            lines.append("ff B %d" % d)
            exp.append(str(dims_of(vp, pcm)["Y"].bytes_per_sample))
        ctx.diff("ff bytes_per_sample: model == compute_dimensions_and_depths", lines, exp)
        # writing / reading
        from vc2_conformance import file_format

        wl, we, rl, re_ = [], [], [], []
        for i in range(ctx.n(400, 6000)):
            vp, pcm = rand_format(rng, big)
            dims = dims_of(vp, pcm)
            pic = rand_picture(rng, dims)
            f = BytesIO()
            file_format.write_picture(pic, vp, pcm, f)
            wl.append("ff W %s | %s" % (dims_words(dims), " ".join(map(str, flat(pic, dims)))))
            we.append(f.getvalue().hex())
            ctx.count("ff:depthY:%d" % dims["Y"].depth_bits)
            # random bytes (junk padding bits)
            n = sum(w * h * bps for (w, h, d, bps) in dims.values())
            raw = bytes(rng.randrange(256) for _ in range(n))
            back = file_format.read_picture(vp, pcm, 0, BytesIO(raw))
            rl.append("ff R %s | %s" % (dims_words(dims), raw.hex()))
            re_.append(";".join(",".join(str(v) for row in back[c] for v in row) for c in dims))
            why = violates_roundtrip(vp, pcm, pic)
            ctx.evaluations += 1
            if why and not getattr(self, "_bad", None):
                self._bad = {"kind": "roundtrip", "video_parameters": {k: int(v) for k, v in vp.items()}, "pcm": int(pcm),
                             "picture": pic, "why": why}
        ctx.diff("ff write_picture bytes: model == real", wl, we)
        ctx.diff("ff read_picture of arbitrary bytes: model == real", rl, re_)
        # comparison tool
        cl, ce = [], []
        for i in range(ctx.n(250, 4000)):
            # depths <= 64 only: for deeper samples psnr() raises TypeError (np.log of an int >= 2^64);
            # the property quantifies the comparison over depths 1-64 (observation recorded in DESIGN.md)
            vp, pcm = rand_format(rng, False)
            dims = dims_of(vp, pcm)
            pic = rand_picture(rng, dims)
            q, counts = perturb(rng, pic, dims)
            meta_b = [copy.deepcopy(vp), pcm]
            q["pic_num"] = pic["pic_num"]
            flags = [1, 1, 1]
            c = rng.random()
            if c < 0.08:
                meta_b[0]["frame_rate_numer"] = int(vp["frame_rate_numer"]) + 1
                flags[0] = 0
            elif c < 0.16:
                q["pic_num"] = (pic["pic_num"] + 1) % 2 ** 32
                flags[2] = 0
            try:
                code, got, back, out = real_compare(pic, (vp, pcm), q, tuple(meta_b))
            except Exception as e:  # noqa
                if not getattr(self, "_bad", None):
                    self._bad = {"kind": "compare", "video_parameters": {k: int(v) for k, v in vp.items()}, "pcm": int(pcm), "picture": pic, "other": q,
                                 "why": "compare_pictures raised %s: %s" % (type(e).__name__, str(e)[:120])}
                ctx.count("ff:compare:raised")
                continue
            planes = " ; ".join("%s / %s" % (" ".join(str(v) for row in pic[cn] for v in row),
                                             " ".join(str(v) for row in q[cn] for v in row)) for cn in dims)
            cl.append("ff C %d %d %d | %s" % (flags[0], flags[1], flags[2], planes))
            ce.append("%d %s" % (code, ",".join(map(str, got)) if code in (0, 4) else ",".join(map(str, counts))))
            ctx.count("ff:compare:exit%d" % code)
            if back[0] != pic and not getattr(self, "_bad", None):
                self._bad = {"kind": "roundtrip", "video_parameters": {k: int(v) for k, v in vp.items()}, "pcm": int(pcm),
                             "picture": pic, "why": "file_format.read(write(p)) != p"}
        ctx.diff("ff compare_pictures exit status and differing-pixel counts: model == real", cl, ce)
        ctx.corr_names.append("REAL compare tool in directory mode: pictures paired by number whatever the file-name padding; summary and exit status")
        for _ in range(ctx.n(60, 600)):
            why = violates_dirs(rng)
            ctx.evaluations += 1
            if why and not getattr(self, "_bad", None):
                self._bad = {"kind": "directories", "why": why}

    def findings(self, ctx):
        return [self._bad] if getattr(self, "_bad", None) else []

    def search(self, ctx):
        rng = ctx.rng("search")
        for _ in range(ctx.n(150, 1500)):
            why = violates_dirs(rng)
            if why:
                return {"kind": "directories", "seed_note": "regenerated from the search stream", "why": why}
        for i in range(ctx.n(1200, 10000)):
            vp, pcm = rand_format(rng, True)
            dims = dims_of(vp, pcm)
            pic = rand_picture(rng, dims)
            why = violates_roundtrip(vp, pcm, pic)
            if why:
                return {"kind": "roundtrip", "video_parameters": {k: int(v) for k, v in vp.items()}, "pcm": int(pcm), "picture": pic, "why": why}
            if max(d for (w, h, d, bps) in dims.values()) > 64:
                continue
            why, q = violates_compare(vp, pcm, pic, rng)
            if why:
                return {"kind": "compare", "video_parameters": {k: int(v) for k, v in vp.items()}, "pcm": int(pcm), "picture": pic,
                        "other": q, "why": why}
        return None

    def replay(self, ctx, path):
        from vc2_conformance.pseudocode.video_parameters import VideoParameters
        from vc2_data_tables import PictureCodingModes

        with open(path) as f:
            r = json.load(f)
        fi = r.get("failing_input")
        if not fi:
            print("replay names broken obligations only:", r.get("broken_obligations"))
            return 1
        vp = base_vp()
        for k, v in fi["video_parameters"].items():
            vp[k] = type(vp[k])(v) if k in vp else v
        pcm = PictureCodingModes(fi["pcm"])
        if fi["kind"] == "directories":
            import random
            why = None
            r2 = random.Random(0)
            for _ in range(400):
                why = violates_dirs(r2)
                if why:
                    break
            print("replay (directory mode, fresh draws) ->", why or "property holds")
            return 1 if why else 0
        if fi["kind"] == "roundtrip":
            why = violates_roundtrip(vp, pcm, fi["picture"])
        else:
            dims = dims_of(vp, pcm)
            try:
                code, got, back, out = real_compare(fi["picture"], (vp, pcm), fi["other"], (vp, pcm))
            except Exception as e:  # noqa
                print("replay -> compare_pictures raised %s" % type(e).__name__)
                return 1
            counts = [sum(1 for ra, rb in zip(fi["picture"][c], fi["other"][c]) for a, b in zip(ra, rb) if a != b) for c in dims]
            want = 0 if sum(counts) == 0 else 4
            why = None if (code == want and (code != 4 or got == counts)) else "compare_pictures -> %s %s, truth %s" % (code, got, counts)
        print("replay ->", why or "property holds")
        return 1 if why else 0


PROP = Prop()
