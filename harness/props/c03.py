"""C03 — the encoder's output is always a conformant stream in the requested format."""
import json

import codecgen as G


def violates(cf, pics):
    try:
        data, seq = G.encode(cf, pics)
    except Exception as e:  # noqa  - the encoder accepted the configuration but could not produce a stream
        return "encoding/serialising failed: %s: %s" % (type(e).__name__, str(e)[:200])
    verdict, out = G.decode(data)
    if verdict != "OK":
        return "validator: %s" % verdict
    if len(out) != len(pics):
        return "%d pictures decoded for %d inputs" % (len(out), len(pics))
    for i, (p, (q, vp, pcm)) in enumerate(zip(pics, out)):
        if vp != cf["video_parameters"]:
            diff = [k for k in vp if vp[k] != cf["video_parameters"].get(k)]
            return "decoded video parameters differ in %s" % diff
        if pcm != cf["picture_coding_mode"]:
            return "decoded picture coding mode %s" % pcm
        want = p.get("pic_num", i)
        if q["pic_num"] != want:
            return "picture %d decoded with number %s, expected %s" % (i, q["pic_num"], want)
    return None


def lossless_boundary():
    """lossless HQ slices whose coded size sits at the 8-bit length-field boundary: the length fields the
    encoder computes must be serialisable (a unit-level instance of 'the encoder's output serialises')"""
    from vc2_conformance.encoder import pictures as P

    for L in (254, 255, 256, 257, 509, 510, 511, 512, 513, 765, 766, 767, 768, 1020, 1024):
        vals = [1] * (2 * L)  # 4 bits each: exactly L bytes
        for which in range(3):   # the long component is Y, C1 or C2 (the others empty)
            comps = [P.ComponentCoeffs(vals, [0] * len(vals)) if k == which else P.ComponentCoeffs([], []) for k in range(3)]
            grid = [[P.SliceCoeffs(*comps)]]
            scaler, td = P.make_transform_data_hq_lossless(grid)
            ln = td["hq_slices"][0]["slice_%s_length" % ("y", "c1", "c2")[which]]
            if not (0 <= ln <= 255) or ln * scaler < L:
                return {"lossless_slice_bytes": L, "component": ("Y", "C1", "C2")[which],
                        "why": "lossless HQ slice whose %s component has %d bytes: slice_size_scaler %d, length field %d (does not fit 8 bits / "
                        "does not cover the data): serialisation raises OutOfRangeError" % (("Y", "C1", "C2")[which], L, scaler, ln)}
    return None


def frag_lines(rng, n):
    """fragment layout of make_fragment_parse_data_units vs the model"""
    from vc2_conformance.encoder.pictures import make_fragment_parse_data_units
    import copy

    lines, exp = [], []
    for _ in range(n):
        cf = G.rand_config(rng)
        if cf["fragment_slice_count"] == 0:
            cf["fragment_slice_count"] = rng.randrange(1, 7)
        pics = G.rand_pictures(rng, cf, n=1)
        dus = make_fragment_parse_data_units(cf, copy.deepcopy(pics[0]))
        got = []
        for du in dus:
            fh = du["fragment_parse"]["fragment_header"]
            got.append("%d,%d,%d" % (fh["fragment_slice_count"], fh.get("fragment_x_offset", 0), fh.get("fragment_y_offset", 0)))
        lines.append("fr %d %d %d" % (cf["slices_x"], cf["slices_y"], cf["fragment_slice_count"]))
        exp.append(" ".join(got))
    return lines, exp


class Prop(object):
    id = "C03"
    lean_modules = ["VC2.Props.C03"]
    status = "partial"
    rule = ("random small configurations over profiles, lossless/lossy, all 7x7 wavelet pairs, symmetric/asymmetric depths, 1-4 x 1-3 slices, fragment sizes (0, 1, 2, all, more than all), "
            "4:4:4/4:2:2/4:2:0, progressive/interlaced sources, frames/fields, custom and default quantisation matrices, depths 1-16, picture_bytes from the minimum upwards, "
            "six picture styles and picture numbers absent / 0 / 4 / 2^32-2 (wrapping): REAL make_sequence -> autofill_and_serialise_stream -> validator; verdict, decoded video "
            "parameters, coding mode, picture count and numbers; plus the fragment layout of make_fragment_parse_data_units vs the model")
    trusted = ["model of the fragment layout (Props/C03) tied by exact comparison with make_fragment_parse_data_units; the stream-structure model (C01), autofill (C07), "
               "sequence search (C19) with their correspondences; payload validity is C14/C15/C13 material - here end to end only"]
    assumptions = ["configurations the encoder accepts (no exception from make_sequence); F6 (qindex beyond its field for 32-bit samples with tiny picture_bytes) lies outside the generated depths (<= 16 bits)"]

    def correspond(self, ctx):
        rng = ctx.rng("e2e")
        self._bad = None
        lines, exp = frag_lines(rng, ctx.n(250, 4000))
        ctx.diff("fr fragment layout (count, x offset, y offset per fragment): model == make_fragment_parse_data_units", lines, exp)
        ctx.corr_names.append("lossless HQ length fields at the 8-bit boundary are serialisable (real make_transform_data_hq_lossless)")
        self._bad = lossless_boundary()
        ctx.evaluations += 15
        ctx.corr_names.append("REAL encode -> serialise -> validate: accepted, configured parameters, one picture per input in order, numbers")
        from props.c04 import big_slice_case

        for i in range(ctx.n(1200, 40000)):
            if i % 12 == 11:   # few large lossless slices with all the detail in one component (scaler chosen per slice)
                cf, pics = big_slice_case(rng)
            else:
                cf = G.rand_config(rng, vary_metadata=True)
                pics = G.rand_pictures(rng, cf)
            why = violates(cf, pics)
            ctx.evaluations += 1
            ctx.count("e2e:profile%d:%s" % (int(cf["profile"]), "lossless" if cf["lossless"] else "lossy"))
            ctx.count("e2e:frag:%s" % ("none" if cf["fragment_slice_count"] == 0 else "some"))
            ctx.distinct.add(hash(json.dumps(G.describe(cf), sort_keys=True, default=str)))
            if why and not self._bad:
                self._bad = {"config": G.describe(cf), "pictures": pics, "why": why}

    def findings(self, ctx):
        return [self._bad] if self._bad else []

    def search(self, ctx):
        rng = ctx.rng("search")
        b = lossless_boundary()
        if b:
            return b
        from props.c04 import big_slice_case

        for i in range(ctx.n(3000, 60000)):
            if i % 12 == 11:
                cf, pics = big_slice_case(rng)
            else:
                cf = G.rand_config(rng, vary_metadata=True)
                pics = G.rand_pictures(rng, cf)
            why = violates(cf, pics)
            if why:
                return {"config": G.describe(cf), "pictures": pics, "why": why}
        return None

    def replay(self, ctx, path):
        with open(path) as f:
            r = json.load(f)
        fi = r.get("failing_input")
        if not fi:
            print("replay names broken obligations only:", r.get("broken_obligations"))
            return 1
        if "lossless_slice_bytes" in fi:
            b = lossless_boundary()
            print("replay ->", b["why"] if b else "property holds")
            return 1 if b else 0
        why = violates(G.from_description(fi["config"]), fi["pictures"])
        print("replay ->", why or "property holds")
        return 1 if why else 0


PROP = Prop()
