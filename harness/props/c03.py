"""C03 — the encoder's output is always a conformant stream in the requested format."""
import copy
import json
from io import BytesIO

import codecgen as G


def violates(cf, pics):
    try:
        data, seq = G.encode(cf, pics)
    except Exception as e:  # noqa  - the encoder accepted the configuration but could not produce a stream
        return "encoding/serialising failed: %s: %s" % (type(e).__name__, str(e)[:200])
    verdict, out = G.decode(data)
    if verdict != "OK":
        return "validator: %s" % verdict
    if len(out) != len(pics):
        return "%d pictures decoded for %d inputs" % (len(out), len(pics))
    for i, (p, (q, vp, pcm)) in enumerate(zip(pics, out)):
        if vp != cf["video_parameters"]:
            diff = [k for k in vp if vp[k] != cf["video_parameters"].get(k)]
            return "decoded video parameters differ in %s" % diff
        if pcm != cf["picture_coding_mode"]:
            return "decoded picture coding mode %s" % pcm
        want = p.get("pic_num", i)
        if q["pic_num"] != want:
            return "picture %d decoded with number %s, expected %s" % (i, q["pic_num"], want)
    return None


PIC = "(low_delay_picture | high_quality_picture | low_delay_picture_fragment | high_quality_picture_fragment)"
EXTRA_PATTERNS = [
    "sequence_header (auxiliary_data %s+)+ end_of_sequence $" % PIC,      # an auxiliary data unit before every picture
    "sequence_header (padding_data %s+)+ end_of_sequence $" % PIC,
    "sequence_header (auxiliary_data padding_data %s+)* auxiliary_data end_of_sequence $" % PIC,
    "(sequence_header %s+)+ end_of_sequence $" % PIC,                    # a repeated header before every picture
]


def violates_with_pattern(cf, pics, pattern):
    """make_sequence with an extra data-unit pattern (several auxiliary / padding units or repeated headers in one
    sequence), serialised and validated: accepted, same pictures"""
    from vc2_conformance.encoder import make_sequence
    from vc2_conformance.encoder.exceptions import UnsatisfiableCodecFeaturesError
    from vc2_conformance.bitstream import Stream, autofill_and_serialise_stream

    try:
        seq = make_sequence(cf, copy.deepcopy(pics), pattern)
    except UnsatisfiableCodecFeaturesError:
        return None
    except Exception as e:  # noqa
        return "make_sequence with the pattern %r failed: %s: %s" % (pattern, type(e).__name__, str(e)[:160])
    f = BytesIO()
    try:
        autofill_and_serialise_stream(f, Stream(sequences=[seq]))
    except Exception as e:  # noqa
        return "the sequence built for the pattern %r cannot be serialised: %s: %s" % (pattern, type(e).__name__, str(e)[:160])
    verdict, out = G.decode(f.getvalue())
    if verdict != "OK":
        return "validator (pattern %r): %s" % (pattern, verdict)
    if len(out) != len(pics):
        return "%d pictures decoded for %d inputs (pattern %r)" % (len(out), len(pics), pattern)
    return None


def lossless_boundary():
    """lossless HQ slices whose coded size sits at the 8-bit length-field boundary: the length fields the
    encoder computes must be serialisable (a unit-level instance of 'the encoder's output serialises')"""
    from vc2_conformance.encoder import pictures as P

    for L in (254, 255, 256, 257, 509, 510, 511, 512, 513, 765, 766, 767, 768, 1020, 1024):
        vals = [1] * (2 * L)  # 4 bits each: exactly L bytes
        for which in range(3):   # the long component is Y, C1 or C2 (the others empty)
            comps = [P.ComponentCoeffs(vals, [0] * len(vals)) if k == which else P.ComponentCoeffs([], []) for k in range(3)]
            grid = [[P.SliceCoeffs(*comps)]]
            scaler, td = P.make_transform_data_hq_lossless(grid)
            ln = td["hq_slices"][0]["slice_%s_length" % ("y", "c1", "c2")[which]]
            if not (0 <= ln <= 255) or ln * scaler < L:
                return {"lossless_slice_bytes": L, "component": ("Y", "C1", "C2")[which],
                        "why": "lossless HQ slice whose %s component has %d bytes: slice_size_scaler %d, length field %d (does not fit 8 bits / "
                        "does not cover the data): serialisation raises OutOfRangeError" % (("Y", "C1", "C2")[which], L, scaler, ln)}
    return None


def frag_lines(rng, n):
    """fragment layout of make_fragment_parse_data_units vs the model"""
    from vc2_conformance.encoder.pictures import make_fragment_parse_data_units
    import copy

    lines, exp = [], []
    for _ in range(n):
        cf = G.rand_config(rng)
        if cf["fragment_slice_count"] == 0:
            cf["fragment_slice_count"] = rng.randrange(1, 7)
        pics = G.rand_pictures(rng, cf, n=1)
        dus = make_fragment_parse_data_units(cf, copy.deepcopy(pics[0]))
        got = []
        for du in dus:
            fh = du["fragment_parse"]["fragment_header"]
            got.append("%d,%d,%d" % (fh["fragment_slice_count"], fh.get("fragment_x_offset", 0), fh.get("fragment_y_offset", 0)))
        lines.append("fr %d %d %d" % (cf["slices_x"], cf["slices_y"], cf["fragment_slice_count"]))
        exp.append(" ".join(got))
    return lines, exp


def compose_lines(rng, n):
    """the composed pipeline on the REAL code: make_sequence (non-fragmented pictures without numbers, unconstrained level) must
    hand the autofill passes exactly the model's plain sequence (header, pictures, end of sequence; no number, offset or version
    filled in); after autofill_and_serialise_stream the filled fields are read back from the serialised units and the real validator
    gives its verdict: all compared with the model's `pc` line (autofill model -> stream-structure model)"""
    from vc2_conformance.encoder import make_sequence
    from vc2_conformance.bitstream import Stream, autofill_and_serialise_stream
    from vc2_conformance.bitstream.vc2_autofill import AUTO
    from vc2_conformance.codec_features import CodecFeatures

    lines, exp = [], []
    for _ in range(n):
        # plain features only: nothing in the PAYLOAD that raises the major version (symmetric transform, 8-bit ranges, default
        # metadata) - the stream-structure model sees parse codes and the profile, not the payload
        d = G.describe(G.rand_config(rng))
        d.update(wavelet_ho=d["wavelet"], depth_ho=0, luma_off=0, luma_exc=255, cd_off=128, cd_exc=255, frag=0)
        d.pop("meta", None)
        qm = {0: {"LL": rng.randrange(0, 4)}}
        for lv in range(1, d["depth"] + 1):
            qm[lv] = {"HL": rng.randrange(0, 4), "LH": rng.randrange(0, 4), "HH": rng.randrange(0, 6)}
        d["qm"] = qm
        cf = CodecFeatures(G.from_description(d), name="plain")
        k = rng.choice([0, 1, 2, 3, 4])
        pics = G.rand_pictures(rng, cf, n=k) if k else []
        if k and int(cf["picture_coding_mode"]) == 1 and rng.random() < 0.25:
            pics = pics[:-1]       # an odd number of fields: both must reject
        for p in pics:
            p.pop("pic_num", None)
        from vc2_conformance.encoder.exceptions import UnsatisfiableCodecFeaturesError

        try:
            seq = make_sequence(cf, copy.deepcopy(pics))
        except UnsatisfiableCodecFeaturesError:
            continue
        shape_ok = True
        for du in seq["data_units"]:
            pi = du["parse_info"]
            if pi.get("next_parse_offset", AUTO) is not AUTO or pi.get("previous_parse_offset", AUTO) is not AUTO:
                shape_ok = False
            if "picture_parse" in du and du["picture_parse"]["picture_header"].get("picture_number", AUTO) is not AUTO:
                shape_ok = False
            if "sequence_header" in du and du["sequence_header"]["parse_parameters"].get("major_version", AUTO) is not AUTO:
                shape_ok = False
        codes = [int(du["parse_info"]["parse_code"]) for du in seq["data_units"]]
        f = BytesIO()
        stream = Stream(sequences=[seq])
        autofill_and_serialise_stream(f, stream)
        data = f.getvalue()
        offs = [du["parse_info"]["_offset"] for du in seq["data_units"]] + [len(data)]
        lens = [b - a for a, b in zip(offs, offs[1:])]
        verdict, out = G.decode(data)
        fields = []
        for du, o in zip(seq["data_units"], offs):
            nxt = int.from_bytes(data[o + 5:o + 9], "big")
            prv = int.from_bytes(data[o + 9:o + 13], "big")
            pn = du["picture_parse"]["picture_header"]["picture_number"] if "picture_parse" in du else "-"
            mv = du["sequence_header"]["parse_parameters"]["major_version"] if "sequence_header" in du else "-"
            fields.append("%d,%d,%d,%s,%s" % (int(du["parse_info"]["parse_code"]), nxt, prv, pn, mv))
        prof = int(cf["profile"])
        want_codes = [0] + [0xE8 if prof == 3 else 0xC8] * len(pics) + [0x10]
        if not shape_ok or codes != want_codes:
            exp.append("SHAPE codes=%s auto-fields-left-alone=%s" % (codes, shape_ok))
        else:
            exp.append("%s | %s" % ("OK" if verdict == "OK" else verdict.split(":")[0], " ; ".join(fields)))
        lines.append("pc %d %d %d %s" % (prof, int(cf["picture_coding_mode"]), lens[0], " ".join(map(str, lens[1:-1]))))
    return lines, exp


class Prop(object):
    id = "C03"
    lean_modules = ["VC2.Props.C03", "VC2.Props.C03Compose"]
    status = "partial"
    rule = ("random small configurations over profiles, lossless/lossy, all 7x7 wavelet pairs, symmetric/asymmetric depths, 1-4 x 1-3 slices, fragment sizes (0, 1, 2, all, more than all), "
            "4:4:4/4:2:2/4:2:0, progressive/interlaced sources, frames/fields, custom and default quantisation matrices, depths 1-16, picture_bytes from the minimum upwards, "
            "six picture styles and picture numbers absent / 0 / 4 / 2^32-2 (wrapping): REAL make_sequence -> autofill_and_serialise_stream -> validator; verdict, decoded video "
            "parameters, coding mode, picture count and numbers; plus the fragment layout of make_fragment_parse_data_units vs the model")
    trusted = ["model of the fragment layout (Props/C03) tied by exact comparison with make_fragment_parse_data_units; the stream-structure model (C01), autofill (C07), "
               "sequence search (C19) with their correspondences; payload validity is C14/C15/C13 material - here end to end only"]
    assumptions = ["configurations the encoder accepts (no exception from make_sequence); F6 (qindex beyond its field for 32-bit samples with tiny picture_bytes) lies outside the generated depths (<= 16 bits)"]

    def correspond(self, ctx):
        rng = ctx.rng("e2e")
        self._bad = None
        lines, exp = frag_lines(rng, ctx.n(250, 4000))
        ctx.diff("fr fragment layout (count, x offset, y offset per fragment): model == make_fragment_parse_data_units", lines, exp)
        lines, exp = compose_lines(rng, ctx.n(250, 4000))
        ctx.diff("pc the composed pipeline: REAL make_sequence hands over the model's plain sequence; numbers, offsets and version read back from the "
                 "serialised stream and the REAL validator's verdict == autofill model -> stream-structure model", lines, exp)
        ctx.corr_names.append("lossless HQ length fields at the 8-bit boundary are serialisable (real make_transform_data_hq_lossless)")
        self._bad = lossless_boundary()
        ctx.evaluations += 15
        ctx.corr_names.append("REAL encode -> serialise -> validate: accepted, configured parameters, one picture per input in order, numbers")
        from props.c04 import big_slice_case

        for i in range(ctx.n(1200, 40000)):
            if i % 12 == 11:   # few large lossless slices with all the detail in one component (scaler chosen per slice)
                cf, pics = big_slice_case(rng)
            else:
                cf = G.rand_config(rng, vary_metadata=True)
                pics = G.rand_pictures(rng, cf)
            why = violates(cf, pics)
            if not why and i % 6 == 5:
                pattern = EXTRA_PATTERNS[(i // 6) % len(EXTRA_PATTERNS)]
                why = violates_with_pattern(cf, pics, pattern)
                ctx.count("e2e:extra-pattern")
                if why and not self._bad:
                    self._bad = {"config": G.describe(cf), "pictures": pics, "pattern": pattern, "why": why}
            ctx.evaluations += 1
            ctx.count("e2e:profile%d:%s" % (int(cf["profile"]), "lossless" if cf["lossless"] else "lossy"))
            ctx.count("e2e:frag:%s" % ("none" if cf["fragment_slice_count"] == 0 else "some"))
            ctx.distinct.add(hash(json.dumps(G.describe(cf), sort_keys=True, default=str)))
            if why and not self._bad:
                self._bad = {"config": G.describe(cf), "pictures": pics, "why": why}

    def findings(self, ctx):
        return [self._bad] if self._bad else []

    def search(self, ctx):
        rng = ctx.rng("search")
        b = lossless_boundary()
        if b:
            return b
        from props.c04 import big_slice_case

        for i in range(ctx.n(3000, 60000)):
            if i % 12 == 11:
                cf, pics = big_slice_case(rng)
            else:
                cf = G.rand_config(rng, vary_metadata=True)
                pics = G.rand_pictures(rng, cf)
            why = violates(cf, pics)
            if why:
                return {"config": G.describe(cf), "pictures": pics, "why": why}
            if i % 6 == 5:
                pattern = EXTRA_PATTERNS[(i // 6) % len(EXTRA_PATTERNS)]
                why = violates_with_pattern(cf, pics, pattern)
                if why:
                    return {"config": G.describe(cf), "pictures": pics, "pattern": pattern, "why": why}
        return None

    def replay(self, ctx, path):
        with open(path) as f:
            r = json.load(f)
        fi = r.get("failing_input")
        if not fi:
            print("replay names broken obligations only:", r.get("broken_obligations"))
            return 1
        if "lossless_slice_bytes" in fi:
            b = lossless_boundary()
            print("replay ->", b["why"] if b else "property holds")
            return 1 if b else 0
        cf = G.from_description(fi["config"])
        why = violates_with_pattern(cf, fi["pictures"], fi["pattern"]) if fi.get("pattern") else violates(cf, fi["pictures"])
        print("replay ->", why or "property holds")
        return 1 if why else 0


PROP = Prop()
