"""C13 — slices tile every subband; low-delay slice sizes sum exactly."""
import itertools
import kernels

FUNCS = ["subband_width", "subband_height", "slice_bytes", "slice_left", "slice_right", "slice_top",
         "slice_bottom", "slices_have_same_dimensions"]


def violates(st):
    """Property predicate evaluated on the REAL slice_sizes functions for one geometry."""
    from vc2_conformance.pseudocode import slice_sizes as ss

    try:
        D = st["dwt_depth"] + st["dwt_depth_ho"]
        all_same = True
        for c in ("Y", "C1", "C2"):
            w = st["luma_width"] if c == "Y" else st["color_diff_width"]
            h = st["luma_height"] if c == "Y" else st["color_diff_height"]
            for level in range(0, D + 1):
                W = ss.subband_width(st, level, c)
                H = ss.subband_height(st, level, c)
                # matches the padded picture
                sw = 1 << D
                pw = -(-w // sw) * sw
                shv = 1 << st["dwt_depth"]
                ph = -(-h // shv) * shv
                ew = D if level == 0 else D - level + 1
                eh = st["dwt_depth"] if level <= st["dwt_depth_ho"] else D - level + 1
                if W * (1 << ew) != pw or H * (1 << eh) != ph:
                    return "subband %s level %d is %dx%d, padded picture is %dx%d" % (c, level, W, H, pw, ph)
                cover = [0] * W
                widths = []
                for sx in range(st["slices_x"]):
                    l, r = ss.slice_left(st, sx, c, level), ss.slice_right(st, sx, c, level)
                    if l > r or l < 0 or r > W:
                        return "slice %d of %s level %d has bounds %d..%d in width %d" % (sx, c, level, l, r, W)
                    for x in range(l, r):
                        cover[x] += 1
                    widths.append(r - l)
                if any(v != 1 for v in cover):
                    return "columns of %s level %d covered %s times" % (c, level, cover)
                cover = [0] * H
                heights = []
                for sy in range(st["slices_y"]):
                    t, b = ss.slice_top(st, sy, c, level), ss.slice_bottom(st, sy, c, level)
                    if t > b or t < 0 or b > H:
                        return "slice row %d of %s level %d has bounds %d..%d in height %d" % (sy, c, level, t, b, H)
                    for y in range(t, b):
                        cover[y] += 1
                    heights.append(b - t)
                if any(v != 1 for v in cover):
                    return "rows of %s level %d covered %s times" % (c, level, cover)
                if len(set(widths)) > 1 or len(set(heights)) > 1:
                    all_same = False
        if bool(ss.slices_have_same_dimensions(st)) != all_same:
            return "slices_have_same_dimensions=%s but all_same=%s" % (ss.slices_have_same_dimensions(st), all_same)
        if st["slice_bytes_denominator"] > 0:
            n = st["slices_x"] * st["slices_y"]
            sizes = [ss.slice_bytes(st, sx, sy) for sy in range(st["slices_y"]) for sx in range(st["slices_x"])]
            if min(sizes) < 0:
                return "negative slice_bytes %s" % sizes
            if sum(sizes) != (n * st["slice_bytes_numerator"]) // st["slice_bytes_denominator"]:
                return "slice_bytes sum %d != floor(%d*%d/%d)" % (
                    sum(sizes), n, st["slice_bytes_numerator"], st["slice_bytes_denominator"])
    except Exception as e:  # noqa
        return "raised %s: %s" % (type(e).__name__, e)
    return None


def geometries(rng, n):
    for w, h, d, dho, sx, sy in itertools.product(range(0, 14), [0, 1, 5], range(0, 3), range(0, 2), range(1, 5), [1, 2, 3]):
        yield dict(luma_width=w, luma_height=h, color_diff_width=(w + 1) // 2, color_diff_height=h,
                   dwt_depth=d, dwt_depth_ho=dho, slices_x=sx, slices_y=sy,
                   slice_bytes_numerator=7 * w + 1, slice_bytes_denominator=sx + sy)
    for _ in range(n):
        yield dict(luma_width=rng.randrange(0, 70), luma_height=rng.randrange(0, 40),
                   color_diff_width=rng.randrange(0, 70), color_diff_height=rng.randrange(0, 40),
                   dwt_depth=rng.randrange(0, 4), dwt_depth_ho=rng.randrange(0, 3),
                   slices_x=rng.randrange(1, 9), slices_y=rng.randrange(1, 6),
                   slice_bytes_numerator=rng.randrange(0, 5000), slice_bytes_denominator=rng.randrange(1, 60))


class Prop(object):
    id = "C13"
    lean_modules = ["VC2.Props.C13"]
    status = "full"
    anchored_functions = FUNCS
    rule = ("generated Lean definition vs real Python function on the same arguments (random geometries incl. zero/negative "
            "depths, zero slice counts and unknown component names, 2^200-size values); non-trivial = Python returned a value")
    trusted = ["translator T1 (harness/py2lean.py), differentially self-checked on every run"]

    def correspond(self, ctx):
        kernels.self_check(ctx, FUNCS, n_random=ctx.n(1500, 20000))

    def search(self, ctx):
        rng = ctx.rng("search")
        for st in geometries(rng, ctx.n(3000, 60000)):
            why = violates(st)
            if why:
                return {"state": st, "why": why}
        return None

    def replay(self, ctx, path):
        import json

        with open(path) as f:
            r = json.load(f)
        fi = r.get("failing_input")
        if not fi:
            print("replay names broken obligations only:", r.get("broken_obligations"))
            return 1
        why = violates(fi["state"])
        print("replay %s -> %s" % (fi["state"], why or "property holds"))
        return 1 if why else 0


PROP = Prop()
