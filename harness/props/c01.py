"""C01 — the validator accepts exactly the structurally conformant data-unit histories."""
import itertools
import json

import streams as S
from props.c18 import level_patterns, toks_of

BASE = ["H0", "H1", "P0", "P1", "P2", "F0", "F1", "D0.1.0.0", "D0.1.1.0", "D0.2.0.0", "D1.1.0.0", "A2", "Z0", "E"]


def configs():
    for profile in ("hq", "ld"):
        for pcm in (0, 1):
            for mv in (None, 1, 2, 3):
                yield S.Config(profile=profile, pcm=pcm, major_version=mv)


def level_pattern_choices():
    pats = []
    seen = set()
    for lvl, p in level_patterns():
        if p not in seen:
            seen.add(p)
            pats.append((lvl, p))
    return pats


def real_and_line(cfg, hist, pattern):
    data, flat, versions = S.build(cfg, hist)
    pics = []
    res = S.validate(data, level_pattern=pattern, collect=pics)
    line = S.model_line(cfg, flat, toks_of(pattern))
    return res, pics, line, data


def canon(res, model_out):
    """the model reports DESYNC for padding/aux units whose next_parse_offset desynchronises the
    parser; the real validator then reports *some* conformance error"""
    if model_out.startswith("DESYNC") and res != "OK" and not res.startswith("CRASH"):
        return "DESYNC"
    return res


def random_history(rng):
    n = rng.randrange(1, 9)
    hist = []
    num = rng.choice([0, 0, 5, 4294967295, 4294967294])
    mode = rng.choice(["pics", "frags", "mixed"])
    hist.append("H0" if rng.random() < 0.9 else rng.choice(BASE))
    for _ in range(n):
        c = rng.random()
        if c < 0.1:
            hist.append(rng.choice(["H0", "H0", "H1"]))
        elif c < 0.2:
            hist.append(rng.choice(["A0", "A3", "Z0", "Z5"]))
        elif c < 0.25:
            hist.append("X%d" % num)
            num = (num + 1) % 4294967296
        elif mode == "pics" or (mode == "mixed" and rng.random() < 0.5):
            hist.append("P%d" % num)
            num = (num + rng.choice([1, 1, 1, 1, 2, 0])) % 4294967296
        else:
            hist.append("F%d" % num)
            style = rng.random()
            if style < 0.7:
                hist += ["D%d.1.0.0" % num, "D%d.1.1.0" % num] if rng.random() < 0.6 else ["D%d.2.0.0" % num]
            elif style < 0.8:
                hist += ["D%d.1.0.0" % num]
            elif style < 0.9:
                hist += ["D%d.1.1.0" % num]
            else:
                hist += ["D%d.3.0.0" % num]
            num = (num + 1) % 4294967296
    if rng.random() < 0.9:
        hist.append("E")
    # sprinkle offset modifiers
    out = []
    for t in hist:
        if rng.random() < 0.08:
            # (n13: exactly the length of a parse-info header - the smallest offset that is checked against the true distance)
            t += ":" + rng.choice(["n0", "nw", "pw", "p0", "n5", "n13", "n13", "n12", "n14", "p13"])
        out.append(t)
    if rng.random() < 0.15:
        out += ["/"] + random_history(rng)
    return out


def grid_histories(rng, n):
    """fragmented pictures on slice grids with SEVERAL ROWS (2x2, 3x2): continuation fragments with the right offsets,
    skipped / repeated / swapped ones, and offsets OUTSIDE the grid whose linear index y*slices_x+x happens to be the
    expected one (x >= slices_x) -> [(config, history)]"""
    out = []
    for i in range(n):
        sx, sy = rng.choice([(2, 2), (2, 2), (3, 2)])
        cfg = S.Config(profile=rng.choice(["hq", "ld"]), pcm=0, major_version=rng.choice([None, 3]), slices=(sx, sy))
        num = rng.choice([0, 7])
        hist = ["H0", "F%d" % num]
        got = 0
        while got < sx * sy:
            cnt = rng.choice([1, 1, 2]) if got + 2 <= sx * sy else 1
            x, y = got % sx, got // sx
            c = rng.random()
            if c < 0.25 and y > 0:
                x, y = x + sx * y, 0                   # same linear index, outside the grid
            elif c < 0.32:
                x, y = y, x                            # swapped
            elif c < 0.38:
                x, y = (got + 1) % sx, (got + 1) // sx  # skipped one
            elif c < 0.42 and y + 1 < sy and x >= 0:
                x, y = x + sx, y - 1 if y else 0
            hist.append("D%d.%d.%d.%d" % (num, cnt, x, y))
            got += cnt
        hist.append("E")
        out.append((cfg, hist))
    return out


class Prop(object):
    id = "C01"
    lean_modules = ["VC2.Props.C01", "VC2.Props.C01History"]
    status = "full"
    rule = ("abstract data-unit histories (sequence headers identical/differing, pictures, other-profile pictures, first/continuation "
            "fragments with slice counts/offsets (also on 2x2 and 3x2 slice grids, with offsets outside the grid whose linear index is the expected one), padding, auxiliary data, end of sequence; correct/zero/wrong/short parse offsets; picture numbers "
            "consecutive/skipped/repeated/wrapping) x profiles x frame/field coding x major versions {auto,1,2,3} x the distinct real level patterns, "
            "rendered to bytes with the REAL encoder+serialiser (offsets patched at byte level) and validated by the REAL validator; the exception "
            "class (or OK / CRASH) and decoded picture numbers are compared with the model. Exhaustive over a reduced alphabet up to length 4 (5 thorough); random beyond")
    trusted = ["hand-written model lean/VC2/Model/Stream.lean tied to the code by this correspondence",
               "generated tables (parse-code names, profile parse codes, level patterns) and T1 kernels (version implications, parse-code predicates)",
               "the real encoder/serialiser used to render individually valid data units"]
    assumptions = ["data units are individually valid (payload-level checks are out of scope of this property)",
                   "padding/auxiliary units with a wrong non-zero next_parse_offset desynchronise the parser: the model only says 'some conformance error'"]

    def histories(self, ctx, rng):
        maxlen = ctx.n(3, 4)
        alpha = ["H0", "P0", "P1", "F0", "D0.1.0.0", "D0.1.1.0", "D0.2.0.0", "A2", "E", "H1", "P0:n0", "P1:pw", "E:nw", "H0:n13"]
        for n in range(1, maxlen + 1):
            for h in itertools.product(alpha, repeat=n):
                if n >= 3 and h[0] != "H0":
                    continue  # everything not starting with a header is rejected at once (covered at n <= 2)
                yield list(h)
        from props import c10
        for seqs in c10.DIRECTED:  # multi-sequence streams of differing configurations
            yield c10.join(seqs)
        for _ in range(ctx.n(200, 2000)):
            k = rng.choice([2, 3])
            yield c10.join([c10.gen_sequence(rng, bad=(rng.random() < 0.2))[0] for _ in range(k)])
        for _ in range(ctx.n(1200, 20000)):
            yield random_history(rng)

    def correspond(self, ctx):
        rng = ctx.rng("vd")
        self._refbad = None
        lines, exp, meta = [], [], []
        cfgs = list(configs())
        pats = level_pattern_choices()
        i = 0
        todo = [(None, h) for h in self.histories(ctx, rng)] + grid_histories(rng, ctx.n(300, 3000))
        for gcfg, hist in todo:
            i += 1
            cfg = gcfg if gcfg is not None else (cfgs[i % len(cfgs)] if i % 3 else S.Config())
            lvl, pat = pats[(i // 7) % len(pats)] if (i % 5 == 0 and gcfg is None) else pats[0]
            try:
                res, pics, line, data = real_and_line(cfg, hist, pat)
            except Exception as e:  # a history the real serialiser cannot render
                ctx.count("vd:unrenderable:%s" % type(e).__name__)
                continue
            lines.append(line)
            exp.append((res, pics))
            meta.append((hist, cfg, pat))
            ctx.count("vd:%s" % res)
        if not ctx.driver.available():
            ctx.broke("correspondence", "vd", "model driver is not built")
            return
        got = ctx.driver.run(lines)
        bad = []
        for line, (res, pics), g, (hist, cfg, pat) in zip(lines, exp, got, meta):
            ctx.evaluations += 1
            ctx.distinct.add(hash(line))
            want = "%s pics=%s" % (canon(res, g), ",".join(map(str, pics)))
            if g.startswith("DESYNC"):
                g = "DESYNC pics=" + g.split("pics=")[1]
            if want != g:
                bad.append({"history": hist, "profile": cfg.profile, "pcm": cfg.pcm, "major_version": cfg.major_version, "slices": list(cfg.slices),
                            "level_pattern": pat, "impl": want, "model": g})
        ctx.traces += len(lines)
        ctx.corr_names.append("vd abstract histories -> real bytes -> real validator verdict == model verdict")
        ctx.sample({"history": meta[len(meta) // 2][0], "impl": exp[len(exp) // 2][0]})
        self._results = list(zip(meta, exp))
        # self-check of the search oracle: the independent reference acceptor agrees with the real validator
        nref = 0
        for (hist, cfg, pat), (res, pics) in self._results:
            if res.startswith("CRASH"):
                continue
            try:
                data, flat, versions = S.build(cfg, hist)
                ok, why = S.reference_accepts(flat, cfg.slices, pat)
            except Exception as e:  # noqa
                ctx.count("reference:error:%s" % type(e).__name__)
                continue
            desync = any(m is not None and m["kind"] in "AZ" and m["next"] != m["len"] for m in flat)
            if ok != (res == "OK") and not desync:
                nref += 1
                if nref == 1:
                    self._refbad = {"history": hist, "profile": cfg.profile, "pcm": cfg.pcm, "major_version": cfg.major_version, "slices": list(cfg.slices),
                                    "level_pattern": pat, "bytes": data.hex(),
                                    "why": "validator says %s, the structure rules say %s (%s)" % (res, "conformant" if ok else "not conformant", why)}
                if nref <= 3:
                    ctx.notes.append("reference acceptor disagrees with the validator on %s: %s vs %s (%s)" % (hist, res, ok, why))
        ctx.count("reference:disagreements", nref)
        # the rule-level specification proved equivalent to the validator model (validator_accepts_iff_conformant)
        # must meet its hypothesis on these histories (wf=1) and agree with the Python reference acceptor (the search oracle)
        cs_lines, cs_exp = [], []
        for line, ((hist, cfg, pat), (res, pics)) in zip(lines, self._results):
            try:
                data, flat, versions = S.build(cfg, hist)
                ok, why = S.reference_accepts(flat, cfg.slices, pat)
            except Exception:  # noqa
                continue
            cs_lines.append("cs" + line[2:])
            cs_exp.append("wf=1 conf=%d" % (1 if ok else 0))
            ctx.count("cs:conformant" if ok else "cs:not-conformant")
        ctx.diff("cs rule-level specification (Lean, proved equivalent to the validator model) == Python reference acceptor; histories well-formed", cs_lines, cs_exp)
        if bad:
            ctx.broke("correspondence", "vd", {"disagreements": len(bad), "first": bad[:4]})

    def findings(self, ctx):
        """the validator must never fail with a non-conformance exception on these histories"""
        unknown = []
        for (hist, cfg, pat), (res, pics) in getattr(self, "_results", []):
            if res.startswith("CRASH"):
                unknown.append({"history": hist, "profile": cfg.profile, "pcm": cfg.pcm, "major_version": cfg.major_version,
                                "level_pattern": pat, "why": "validator raised %s (not a conformance error)" % res})
                break
        if not unknown and getattr(self, "_refbad", None):
            unknown.append(self._refbad)
        return unknown

    def check_one(self, cfg, hist, pat=None):
        """the property on the REAL validator: never a non-conformance exception, and accept exactly the
        histories the independent reference acceptor (streams.reference_accepts) accepts"""
        data, flat, versions = S.build(cfg, hist)
        res = S.validate(data, level_pattern=pat)
        if res.startswith("CRASH"):
            return "validator raised %s (not a conformance error)" % res, data
        ok, why = S.reference_accepts(flat, cfg.slices, pat)
        desync = any(m is not None and m["kind"] in "AZ" and m["next"] != m["len"] for m in flat)
        if ok != (res == "OK") and not desync:
            return ("validator says %s, the structure rules say %s (%s)" % (res, "conformant" if ok else "not conformant", why)), data
        return None, data

    def search(self, ctx):
        rng = ctx.rng("search")
        cfgs = list(configs())
        cands = []
        for b in ctx.broken:  # disagreeing histories of the correspondence first
            if b["kind"] == "correspondence" and isinstance(b["detail"], dict):
                for d in b["detail"].get("first", []):
                    cands.append((d["history"], S.Config(profile=d["profile"], pcm=d["pcm"], major_version=d["major_version"], slices=tuple(d.get("slices", (2, 1)))), d.get("level_pattern")))
        for (hist, cfg, pat), _ in getattr(self, "_results", []):
            cands.append((hist, cfg, pat))
        for cfg, hist in grid_histories(rng, ctx.n(300, 3000)):
            cands.append((hist, cfg, None))
        for i in range(ctx.n(3000, 30000)):
            cands.append((random_history(rng), cfgs[i % len(cfgs)], None))
        for hist, cfg, pat in cands:
            try:
                why, data = self.check_one(cfg, hist, pat)
            except Exception:
                continue
            if why:
                return {"history": hist, "profile": cfg.profile, "pcm": cfg.pcm, "major_version": cfg.major_version, "slices": list(cfg.slices),
                        "level_pattern": pat, "bytes": data.hex(), "why": why}
        return None

    def replay(self, ctx, path):
        with open(path) as f:
            r = json.load(f)
        fi = r.get("failing_input")
        if not fi:
            print("replay names broken obligations only:", r.get("broken_obligations"))
            return 1
        cfg = S.Config(profile=fi["profile"], pcm=fi["pcm"], major_version=fi["major_version"], slices=tuple(fi.get("slices", (2, 1))))
        why, data = self.check_one(cfg, fi["history"], fi.get("level_pattern"))
        print("replay %s -> %s" % (fi["history"], why or "property holds"))
        return 1 if why else 0


PROP = Prop()
