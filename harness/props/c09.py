"""C09 — every decoded picture is well-formed."""
import copy
import json
from io import BytesIO

import codecgen as G


def repack_extreme(rng, data):
    """deserialise an HQ stream, replace slice coefficients by extreme / random values and recompute the
    slice length fields (with a large slice_size_scaler so that they fit), serialise again"""
    from vc2_conformance.bitstream import (BitstreamReader, BitstreamWriter, Deserialiser, Serialiser, parse_stream)
    from vc2_conformance.pseudocode.state import State
    from vc2_conformance.encoder.pictures import calculate_hq_length_field
    from vc2_conformance.bitstream.vc2_autofill import autofill_parse_offsets, autofill_parse_offsets_finalize, AUTO

    r = BitstreamReader(BytesIO(data))
    with Deserialiser(r) as des:
        parse_stream(des, State())
    ctx = des.context
    style = rng.choice(["huge", "mixed", "negative", "random"])

    def val():
        if style == "huge":
            return rng.choice([2 ** 40, -(2 ** 40), 2 ** 20, 0])
        if style == "negative":
            return -rng.randrange(0, 2 ** 18)
        if style == "mixed":
            return rng.choice([0, 0, 1, -1, 2 ** 31, -(2 ** 31), 12345])
        return rng.randrange(-2 ** 16, 2 ** 16)

    scaler = 64
    for seq in ctx["sequences"]:
        for du in seq["data_units"]:
            slices, tp = None, None
            if "picture_parse" in du:
                wt = du["picture_parse"]["wavelet_transform"]
                tp = wt["transform_parameters"]
                slices = wt["transform_data"].get("hq_slices")
            elif "fragment_parse" in du:
                fp = du["fragment_parse"]
                tp = fp.get("transform_parameters")
                slices = fp.get("fragment_data", {}).get("hq_slices")
            if tp is not None and "slice_parameters" in tp and "slice_size_scaler" in tp["slice_parameters"]:
                tp["slice_parameters"]["slice_size_scaler"] = scaler
            for s in slices or []:
                s["qindex"] = rng.choice([0, 0, 3, 20])
                for comp in ("y", "c1", "c2"):
                    key = "%s_transform" % comp
                    s[key] = [val() for _ in s[key]]
                    s["slice_%s_length" % comp] = calculate_hq_length_field(s[key], scaler)
                    s.pop("%s_block_padding" % comp, None)
            pi = du["parse_info"]
            pi["next_parse_offset"] = AUTO
            pi["previous_parse_offset"] = AUTO
    def strip(node):
        # alignment / block padding values depend on the lengths that were just changed: let the
        # serialiser use its defaults (zeros of the right size)
        if isinstance(node, dict):
            for k in [k for k in node if isinstance(k, str) and (k == "padding" or k.endswith("_block_padding") or k == "_offset")]:
                del node[k]
            for v in node.values():
                strip(v)
        elif isinstance(node, list):
            for v in node:
                strip(v)

    strip(ctx)
    from vc2_conformance.bitstream.vc2_fixeddicts import vc2_default_values

    nxt, prv = autofill_parse_offsets(ctx)
    f = BytesIO()
    w = BitstreamWriter(f)
    with Serialiser(w, ctx, vc2_default_values) as ser:
        parse_stream(ser, State())
    w.flush()
    autofill_parse_offsets_finalize(w, ser.context, nxt, prv)
    w.flush()
    return f.getvalue()


def well_formed(cf, pics_in, out, n_expected):
    d = G.dims(cf)
    if len(out) != n_expected:
        return "%d pictures output, %d picture data units / completed fragmented pictures" % (len(out), n_expected)
    for i, (q, vp, pcm) in enumerate(out):
        for c, (w, h, depth, _) in d.items():
            if len(q[c]) != h or any(len(row) != w for row in q[c]):
                return "picture %d component %s has shape %dx%s, expected %dx%d" % (i, c, len(q[c]), sorted(set(len(r) for r in q[c])), h, w)
            for row in q[c]:
                for v in row:
                    if not isinstance(v, int) or isinstance(v, bool) or v < 0 or v > (1 << depth) - 1:
                        return "picture %d component %s sample %r outside [0, 2^%d - 1]" % (i, c, v, depth)
        want = pics_in[i].get("pic_num", i)
        if q["pic_num"] != want:
            return "picture %d has number %s, coded %s" % (i, q["pic_num"], want)
    return None


def violates(rng, cf, pics, extreme):
    data, seq = G.encode(cf, pics)
    if extreme:
        data = repack_extreme(rng, data)
    verdict, out = G.decode(data)
    if verdict != "OK":
        # a re-packed stream may legitimately be rejected (e.g. level/length rules); only accepted streams matter
        return (None if extreme else "validator rejects the encoder's stream: %s" % verdict), "rejected"
    why = well_formed(cf, pics, out, len(pics))
    return why, "extreme" if extreme else "plain"


def rand_case(rng):
    from vc2_data_tables import Profiles

    extreme = rng.random() < 0.5
    cf = G.rand_config(rng, profile=Profiles.high_quality if extreme else None)
    return cf, G.rand_pictures(rng, cf), extreme


class Prop(object):
    id = "C09"
    lean_modules = ["VC2.Props.C09"]
    status = "partial"
    rule = ("random small configurations (profiles, wavelet pairs, asymmetric depths, slices, fragments, subsampling, fields, depths 1-16; component sizes that are not multiples of the "
            "transform scale; square components) encoded by the REAL encoder; half of the HQ streams have their slice payloads re-packed with extreme / negative / random coefficients "
            "(up to 2^40) and recomputed length fields; every stream the REAL validator accepts must output one picture per picture / completed fragmented picture with exact component "
            "shapes, integer samples in [0, 2^depth - 1] and the coded picture numbers")
    trusted = ["models Picture.lean (clip/offset), Wavelet.lean (C11 shapes), Stream.lean (C01 output count) with their correspondences; the composition inside the real decoder is validated by this check"]
    assumptions = ["only streams the validator accepts are in scope"]

    def correspond(self, ctx):
        rng = ctx.rng("e2e")
        self._bad = None
        ctx.corr_names.append("REAL validator output on plain and extreme-coefficient streams: shape, range, numbers, count")
        for _ in range(ctx.n(900, 25000)):
            cf, pics, extreme = rand_case(rng)
            try:
                why, kind = violates(rng, cf, pics, extreme)
            except Exception as e:  # noqa
                why, kind = "exception %s: %s" % (type(e).__name__, str(e)[:160]), "error"
            ctx.evaluations += 1
            ctx.count("e2e:%s" % kind)
            if kind in ("plain", "extreme"):
                ctx.distinct.add(hash(json.dumps(G.describe(cf), sort_keys=True, default=str) + kind))
            if why and not self._bad:
                self._bad = {"config": G.describe(cf), "pictures": pics, "extreme": extreme, "why": why}

    def findings(self, ctx):
        return [self._bad] if self._bad else []

    def search(self, ctx):
        rng = ctx.rng("search")
        for _ in range(ctx.n(2500, 40000)):
            cf, pics, extreme = rand_case(rng)
            try:
                why, kind = violates(rng, cf, pics, False)
            except Exception as e:  # noqa
                why = "exception %s: %s" % (type(e).__name__, str(e)[:160])
            if why:
                return {"config": G.describe(cf), "pictures": pics, "extreme": False, "why": why}
        return None

    def replay(self, ctx, path):
        import random

        with open(path) as f:
            r = json.load(f)
        fi = r.get("failing_input")
        if not fi:
            print("replay names broken obligations only:", r.get("broken_obligations"))
            return 1
        why, kind = violates(random.Random(0), G.from_description(fi["config"]), fi["pictures"], fi.get("extreme", False))
        print("replay ->", why or "property holds")
        return 1 if why else 0


PROP = Prop()
