"""C09 — every decoded picture is well-formed."""
import copy
import json
from io import BytesIO

import codecgen as G


def repack_extreme(rng, data):
    """deserialise an HQ stream, replace slice coefficients by extreme / random values and recompute the
    slice length fields (with a large slice_size_scaler so that they fit), serialise again"""
    from vc2_conformance.bitstream import (BitstreamReader, BitstreamWriter, Deserialiser, Serialiser, parse_stream)
    from vc2_conformance.pseudocode.state import State
    from vc2_conformance.encoder.pictures import calculate_hq_length_field
    from vc2_conformance.bitstream.vc2_autofill import autofill_parse_offsets, autofill_parse_offsets_finalize, AUTO

    r = BitstreamReader(BytesIO(data))
    with Deserialiser(r) as des:
        parse_stream(des, State())
    ctx = des.context
    style = rng.choice(["huge", "mixed", "negative", "random"])

    def val():
        if style == "huge":
            return rng.choice([2 ** 40, -(2 ** 40), 2 ** 20, 0])
        if style == "negative":
            return -rng.randrange(0, 2 ** 18)
        if style == "mixed":
            return rng.choice([0, 0, 1, -1, 2 ** 31, -(2 ** 31), 12345])
        return rng.randrange(-2 ** 16, 2 ** 16)

    scaler = 64
    for seq in ctx["sequences"]:
        for du in seq["data_units"]:
            slices, tp = None, None
            if "picture_parse" in du:
                wt = du["picture_parse"]["wavelet_transform"]
                tp = wt["transform_parameters"]
                slices = wt["transform_data"].get("hq_slices")
            elif "fragment_parse" in du:
                fp = du["fragment_parse"]
                tp = fp.get("transform_parameters")
                slices = fp.get("fragment_data", {}).get("hq_slices")
            if tp is not None and "slice_parameters" in tp and "slice_size_scaler" in tp["slice_parameters"]:
                tp["slice_parameters"]["slice_size_scaler"] = scaler
            for s in slices or []:
                s["qindex"] = rng.choice([0, 0, 3, 20])
                for comp in ("y", "c1", "c2"):
                    key = "%s_transform" % comp
                    s[key] = [val() for _ in s[key]]
                    s["slice_%s_length" % comp] = calculate_hq_length_field(s[key], scaler)
                    s.pop("%s_block_padding" % comp, None)
            pi = du["parse_info"]
            pi["next_parse_offset"] = AUTO
            pi["previous_parse_offset"] = AUTO
    def strip(node):
        # alignment / block padding values depend on the lengths that were just changed: let the
        # serialiser use its defaults (zeros of the right size)
        if isinstance(node, dict):
            for k in [k for k in node if isinstance(k, str) and (k == "padding" or k.endswith("_block_padding") or k == "_offset")]:
                del node[k]
            for v in node.values():
                strip(v)
        elif isinstance(node, list):
            for v in node:
                strip(v)

    strip(ctx)
    from vc2_conformance.bitstream.vc2_fixeddicts import vc2_default_values

    nxt, prv = autofill_parse_offsets(ctx)
    f = BytesIO()
    w = BitstreamWriter(f)
    with Serialiser(w, ctx, vc2_default_values) as ser:
        parse_stream(ser, State())
    w.flush()
    autofill_parse_offsets_finalize(w, ser.context, nxt, prv)
    w.flush()
    return f.getvalue()


def well_formed(cf, pics_in, out, n_expected):
    d = G.dims(cf)
    if len(out) != n_expected:
        return "%d pictures output, %d picture data units / completed fragmented pictures" % (len(out), n_expected)
    for i, (q, vp, pcm) in enumerate(out):
        for c, (w, h, depth, _) in d.items():
            if len(q[c]) != h or any(len(row) != w for row in q[c]):
                return "picture %d component %s has shape %dx%s, expected %dx%d" % (i, c, len(q[c]), sorted(set(len(r) for r in q[c])), h, w)
            for row in q[c]:
                for v in row:
                    if not isinstance(v, int) or isinstance(v, bool) or v < 0 or v > (1 << depth) - 1:
                        return "picture %d component %s sample %r outside [0, 2^%d - 1]" % (i, c, v, depth)
        want = pics_in[i].get("pic_num", i)
        if q["pic_num"] != want:
            return "picture %d has number %s, coded %s" % (i, q["pic_num"], want)
    return None


def retransformed(rng, cf):
    """the same codec with ANOTHER transform (2D / horizontal-only depth split - mostly with the same number of
    levels -, sometimes other filters and slice counts) for later pictures of the same sequence"""
    from vc2_conformance.codec_features import CodecFeatures
    from vc2_data_tables import WaveletFilters, QUANTISATION_MATRICES

    cf2 = CodecFeatures(cf)
    total = cf["dwt_depth"] + cf["dwt_depth_ho"]
    splits = [(d, total - d) for d in range(total + 1) if (d, total - d) != (cf["dwt_depth"], cf["dwt_depth_ho"])]
    if splits and rng.random() < 0.7:
        d, dho = rng.choice(splits)
    else:
        d, dho = rng.choice([0, 1, 2, 3]), rng.choice([0, 0, 1, 2])
    cf2["dwt_depth"], cf2["dwt_depth_ho"] = d, dho
    if rng.random() < 0.3:
        cf2["wavelet_index"] = cf2["wavelet_index_ho"] = WaveletFilters(rng.randrange(7))
    if rng.random() < 0.2:
        cf2["slices_x"], cf2["slices_y"] = rng.randrange(1, 5), rng.randrange(1, 4)
        if cf["picture_bytes"] is not None:
            cf2["picture_bytes"] = cf["picture_bytes"] + 40 * cf2["slices_x"] * cf2["slices_y"]
    qm = None
    if (cf2["wavelet_index"], cf2["wavelet_index_ho"], d, dho) not in QUANTISATION_MATRICES:
        qm = {0: {"LL": 1}} if dho == 0 else dict([(0, {"L": 1})] + [(lv, {"H": rng.randrange(0, 4)}) for lv in range(1, dho + 1)])
        for lv in range(dho + 1, d + dho + 1):
            qm[lv] = {"HL": rng.randrange(0, 4), "LH": rng.randrange(0, 4), "HH": rng.randrange(0, 6)}
    cf2["quantization_matrix"] = qm
    return cf2


def encode_spliced(cf, pics, cf2, pics2):
    """ONE sequence: the pictures of `pics` coded with cf followed by `pics2` coded with cf2 (same video format, other
    transform parameters) - transform parameters are per picture in VC-2"""
    from vc2_conformance.encoder import make_sequence
    from vc2_conformance.bitstream import Stream, autofill_and_serialise_stream
    from vc2_data_tables import ParseCodes

    a = make_sequence(cf, copy.deepcopy(pics))
    b = make_sequence(cf2, copy.deepcopy(pics2))
    eos = int(ParseCodes.end_of_sequence)
    tail = [du for du in b["data_units"] if "sequence_header" not in du]
    a["data_units"] = [du for du in a["data_units"] if du["parse_info"]["parse_code"] != eos] + tail
    f = BytesIO()
    autofill_and_serialise_stream(f, Stream(sequences=[a]))
    return f.getvalue()


def violates_spliced(rng, cf, pics, cf2, pics2):
    data = encode_spliced(cf, pics, cf2, pics2)
    verdict, out = G.decode(data)
    if verdict != "OK":
        return "validator rejects a sequence whose later pictures use other transform parameters: %s" % verdict, "rejected"
    return well_formed(cf, pics + pics2, out, len(pics) + len(pics2)), "spliced"


def rand_spliced(rng):
    cf = G.rand_config(rng)
    pics = G.rand_pictures(rng, cf)
    cf2 = retransformed(rng, cf)
    pics2 = G.rand_pictures(rng, cf2, n=rng.choice([1, 2]))
    last = pics[-1].get("pic_num", len(pics) - 1)
    for i, p in enumerate(pics2):
        p["pic_num"] = (last + 1 + i) % 2 ** 32
    return cf, pics, cf2, pics2


def violates(rng, cf, pics, extreme):
    data, seq = G.encode(cf, pics)
    if extreme:
        data = repack_extreme(rng, data)
    verdict, out = G.decode(data)
    if verdict != "OK":
        # a re-packed stream may legitimately be rejected (e.g. level/length rules); only accepted streams matter
        return (None if extreme else "validator rejects the encoder's stream: %s" % verdict), "rejected"
    why = well_formed(cf, pics, out, len(pics))
    return why, "extreme" if extreme else "plain"


def rand_case(rng):
    from vc2_data_tables import Profiles

    extreme = rng.random() < 0.5
    cf = G.rand_config(rng, profile=Profiles.high_quality if extreme else None)
    return cf, G.rand_pictures(rng, cf), extreme


class Prop(object):
    id = "C09"
    lean_modules = ["VC2.Props.C09"]
    status = "partial"
    rule = ("random small configurations (profiles, wavelet pairs, asymmetric depths, slices, fragments, subsampling, fields, depths 1-16; component sizes that are not multiples of the "
            "transform scale; square components) encoded by the REAL encoder; half of the HQ streams have their slice payloads re-packed with extreme / negative / random coefficients "
            "(up to 2^40) and recomputed length fields; sequences whose later pictures are coded with OTHER transform parameters (depth split, filters, slice counts); every stream the REAL validator accepts must output one picture per picture / completed fragmented picture with exact component "
            "shapes, integer samples in [0, 2^depth - 1] and the coded picture numbers")
    trusted = ["models Picture.lean (clip/offset), Wavelet.lean (C11 shapes), Stream.lean (C01 output count) with their correspondences; the composition inside the real decoder is validated by this check"]
    assumptions = ["only streams the validator accepts are in scope"]

    def correspond(self, ctx):
        rng = ctx.rng("e2e")
        self._bad = None
        ctx.corr_names.append("REAL validator output on plain and extreme-coefficient streams: shape, range, numbers, count")
        for _ in range(ctx.n(900, 25000)):
            cf, pics, extreme = rand_case(rng)
            try:
                why, kind = violates(rng, cf, pics, extreme)
            except Exception as e:  # noqa
                why, kind = "exception %s: %s" % (type(e).__name__, str(e)[:160]), "error"
            ctx.evaluations += 1
            ctx.count("e2e:%s" % kind)
            if kind in ("plain", "extreme"):
                ctx.distinct.add(hash(json.dumps(G.describe(cf), sort_keys=True, default=str) + kind))
            if why and not self._bad:
                self._bad = {"config": G.describe(cf), "pictures": pics, "extreme": extreme, "why": why}
        # sequences whose later pictures use OTHER transform parameters (transform parameters are per picture)
        ctx.corr_names.append("REAL validator output on sequences whose pictures use different transform parameters")
        rng = ctx.rng("spliced")
        for _ in range(ctx.n(250, 6000)):
            why = self._spliced(ctx, rng)
            if why and not self._bad:
                self._bad = why

    def _spliced(self, ctx, rng):
        cf, pics, cf2, pics2 = rand_spliced(rng)
        try:
            why, kind = violates_spliced(rng, cf, pics, cf2, pics2)
        except Exception as e:  # noqa
            why, kind = "exception %s: %s" % (type(e).__name__, str(e)[:160]), "error"
        if ctx is not None:
            ctx.evaluations += 1
            ctx.count("e2e:%s" % kind)
            ctx.distinct.add(hash(json.dumps([G.describe(cf), G.describe(cf2)], sort_keys=True, default=str)))
        if why:
            return {"config": G.describe(cf), "pictures": pics, "config2": G.describe(cf2), "pictures2": pics2, "why": why}
        return None

    def findings(self, ctx):
        return [self._bad] if self._bad else []

    def search(self, ctx):
        rng = ctx.rng("search")
        for i in range(ctx.n(2500, 40000)):
            if i % 4 == 3:
                bad = self._spliced(None, rng)
                if bad:
                    return bad
                continue
            cf, pics, extreme = rand_case(rng)
            try:
                why, kind = violates(rng, cf, pics, False)
            except Exception as e:  # noqa
                why = "exception %s: %s" % (type(e).__name__, str(e)[:160])
            if why:
                return {"config": G.describe(cf), "pictures": pics, "extreme": False, "why": why}
        return None

    def replay(self, ctx, path):
        import random

        with open(path) as f:
            r = json.load(f)
        fi = r.get("failing_input")
        if not fi:
            print("replay names broken obligations only:", r.get("broken_obligations"))
            return 1
        if "config2" in fi:
            why, kind = violates_spliced(random.Random(0), G.from_description(fi["config"]), fi["pictures"], G.from_description(fi["config2"]), fi["pictures2"])
        else:
            why, kind = violates(random.Random(0), G.from_description(fi["config"]), fi["pictures"], fi.get("extreme", False))
        print("replay ->", why or "property holds")
        return 1 if why else 0


PROP = Prop()
