"""C05 — decoder test cases are conformant and decode to their intended pictures."""
import copy
import json
import signal
import sys
from io import BytesIO

sys.path.insert(0, "/repo/tests")

import codecgen as G

MIDGRAY = {"padding_data", "absent_next_parse_offset", "concatenated_sequences", "slice_prefix_bytes", "slice_size_scaler",
           "slice_padding_data", "picture_numbers", "static_gray"}
SAME_WITHIN = {"source_parameters_encodings", "repeated_sequence_headers", "extended_transform_parameters", "padding_data",
               "slice_padding_data", "slice_prefix_bytes", "slice_size_scaler", "absent_next_parse_offset"}
PICTURE_NUMBERS = {"start_at_zero": [0, 1, 2, 3, 4, 5, 6, 7], "non_zero_start": list(range(1000, 1008)),
                   "wrap_around": [4294967292, 4294967293, 4294967294, 4294967295, 0, 1, 2, 3],
                   "odd_first_picture": list(range(7, 15))}
# the source each content-invariant test case is documented to encode: (picture generator, number of frames); the
# "plain encoding of the same source" has frames x (pictures per frame) pictures - per frame the source generators
# yield one picture, or two when pictures are fields (C22: generators_wellformed)
SOURCE_FRAMES = {"padding_data": 2, "absent_next_parse_offset": 2, "concatenated_sequences": 2, "slice_padding_data": 1,
                 "dangling_bounded_block_data": 1, "slice_prefix_bytes": 1, "slice_size_scaler": 1,
                 "source_parameters_encodings": 1, "repeated_sequence_headers": 2, "extended_transform_parameters": 1}
SLOW = {"signal_range", "real_pictures"}   # need the large bundled analyses / natural pictures: a subset of the configurations


class Timeout(BaseException):  # not an Exception: the code under test may catch Exception broadly
    pass


def _alarm(signum, frame):
    raise Timeout()


def rand_config(rng):
    """small formats the generators can handle (component sizes >= the transform scale, depths 8-12)"""
    from vc2_conformance.codec_features import CodecFeatures

    for _ in range(50):
        cf = G.rand_config(rng)
        vp = cf["video_parameters"]
        if vp["luma_excursion"] < 255 or vp["color_diff_excursion"] < 255:
            continue
        if cf["dwt_depth"] + cf["dwt_depth_ho"] == 0 and rng.random() < 0.7:
            continue
        return CodecFeatures(cf, name="cf")
    return CodecFeatures(cf, name="cf")


def directed_configs():
    """low-delay configurations whose slices have UNEQUAL sizes on grids with several rows and columns
    (slice-size arithmetic depends on both coordinates), and HQ ones with several fragments"""
    from sample_codec_features import MINIMAL_CODEC_FEATURES as CF
    from vc2_conformance.codec_features import CodecFeatures
    from vc2_data_tables import Profiles

    out = []
    for (sx, sy) in [(2, 2), (3, 2), (2, 3), (4, 3)]:
        n = sx * sy
        for pb in (7 * n + 2, 7 * n + n - 1, 9 * n + (n // 2)):
            vp = copy.deepcopy(CF["video_parameters"])
            vp["frame_width"], vp["frame_height"] = 8 * sx // 2 * 2, 4 * sy
            vp["clean_width"], vp["clean_height"] = vp["frame_width"], vp["frame_height"]
            out.append(CodecFeatures(CF, name="cf", profile=Profiles.low_delay, slices_x=sx, slices_y=sy, picture_bytes=pb, video_parameters=vp))
    return out


def directed_asym_configs():
    """HQ configurations with asymmetric transforms, one per horizontal-only wavelet (index 0 included - a falsy enum
    value) against a different 2-D wavelet, without and with horizontal-only levels (32x16 so that content differs)"""
    from vc2_conformance.codec_features import CodecFeatures

    base = G.describe(G.rand_config(__import__("random").Random(7), profile=None))
    out = []
    for k, (wi, who, d, dho, w, h, frag) in enumerate([(1, 0, 1, 0, 8, 4, 0), (4, 0, 1, 1, 32, 16, 0), (0, 3, 1, 0, 8, 4, 0), (3, 1, 1, 1, 32, 16, 2),
                                                      (1, 0, 2, 0, 16, 8, 0), (2, 6, 1, 0, 8, 4, 0)]):
        desc = dict(base, profile=3, pcm=0, lossless=False, w=w, h=h, cdf=0, ss=0, luma_off=0, luma_exc=255, cd_exc=255, cd_off=128,
                    wavelet=wi, wavelet_ho=who, depth=d, depth_ho=dho, sx=2, sy=1, frag=frag, picture_bytes=w * h * 2)
        qm = {0: {"LL": 1}} if dho == 0 else {0: {"L": 1}}
        for lv in range(1, dho + 1):
            qm[lv] = {"H": 2}
        for lv in range(dho + 1, d + dho + 1):
            qm[lv] = {"HL": 2, "LH": 2, "HH": 3}
        desc["qm"] = qm
        desc.pop("meta", None)
        out.append(CodecFeatures(G.from_description(desc), name="cf"))
    # lossless with FEW LARGE slices and subsampled colour difference: a slice's luma alone needs more than 255 bytes at
    # the largest quantisation index a generator may use, its colour-difference components much less
    for (w, h, cdf, sx) in ((32, 16, 1, 1), (48, 16, 2, 1)):
        desc = dict(base, profile=3, pcm=0, lossless=True, w=w, h=h, cdf=cdf, ss=0, luma_off=0, luma_exc=255, cd_exc=255, cd_off=128,
                    wavelet=4, wavelet_ho=4, depth=1, depth_ho=0, sx=sx, sy=1, frag=0, picture_bytes=None, qm=None)
        desc.pop("meta", None)
        out.append(CodecFeatures(G.from_description(desc), name="cf"))
    return out


FILLERS = [b"\x00", b"\xFF", b"\xAA", b"\x55", b"\x42\x42\x43\x44\x10\x00\x00\x00\x00\x00\x00\x00\x00"]


def fill_cases(rng, n_random):
    """inputs of the three slice-padding fillers: every small slice size x component x fill level"""
    ld, hq, gp = [], [], []
    for sb in list(range(1, 41)) + [64, 100, 255, 256, 1000]:
        data = 8 * sb - 7
        k = (data - 1).bit_length()
        data -= k
        for comp in ("Y", "C"):
            for zeros in sorted(set([0, 1, 3, 8, max(0, data - 1), data, data + 2])):
                for fi, al in ((0, 0), (2, 0), (4, 1)):
                    ld.append((sb, comp, zeros, fi, al))
    for _ in range(n_random):
        ld.append((rng.randrange(1, 300), rng.choice("YC"), rng.randrange(0, 60), rng.randrange(5), rng.randrange(2)))
        hq.append((rng.choice([1, 1, 2, 3, 7]), rng.randrange(0, 40), rng.randrange(0, 40), rng.randrange(0, 40),
                   rng.choice([0, 0, 8, 50, 200]), rng.randrange(3), rng.randrange(0, 70), rng.randrange(5), rng.randrange(2)))
        gp.append((rng.randrange(0, 200), rng.randrange(5), rng.randrange(0, 40)))
    for sc in (1, 2):
        for y, c1, c2 in ((0, 0, 0), (1, 0, 0), (1, 2, 3), (85, 85, 85)):
            for mn in (0, y + c1 + c2 + 8):
                for comp in range(3):
                    for zeros in (0, 5, 8 * sc * max(mn, y + c1 + c2), 8 * sc * max(mn, y + c1 + c2) + 3):
                        hq.append((sc, y, c1, c2, mn, comp, zeros, 1, 0))
                        hq.append((sc, y, c1, c2, mn, comp, zeros, 4, 1))
    for n in range(0, 30):
        for a in (0, 1, 7, 8, 13):
            gp.append((n, 4, a))
            gp.append((n, 3, a))
    return ld, hq, gp


def bits(ba):
    return ba.to01() or "-"


def real_ld_fill(sb, comp, zeros, fi, al):
    from vc2_conformance.bitstream import LDSlice
    from vc2_conformance.pseudocode.state import State
    from vc2_conformance.test_cases.decoder.pictures import fill_ld_slice_padding
    from bitarray import bitarray

    st = State(slices_x=1, slices_y=1, slice_bytes_numerator=sb, slice_bytes_denominator=1)
    sl = LDSlice(qindex=3, slice_y_length=0, y_transform=[5] * (zeros if comp == "Y" else 2), c_transform=[7] * (zeros if comp == "C" else 2),
                 y_block_padding=bitarray(), c_block_padding=bitarray())
    fill_ld_slice_padding(st, 0, 0, sl, comp, FILLERS[fi], bool(al))
    return sl


def ld_fill_violation(sb, comp, zeros, fi, al):
    """what serialising the slice needs: the luma length fits its field and the slice, all transform
    values are zero, the padding fills the component's bounded block exactly"""
    sl = real_ld_fill(sb, comp, zeros, fi, al)
    data = 8 * sb - 7
    k = (data - 1).bit_length()
    data -= k
    y = sl["slice_y_length"]
    if not (0 <= y < (1 << k)):
        return "slice_y_length=%d does not fit its %d-bit field" % (y, k)
    if y > data:
        return "slice_y_length=%d exceeds the %d data bits of the slice" % (y, data)
    if any(sl["y_transform"]) or any(sl["c_transform"]):
        return "transform values are not all zero"
    room = (y if comp == "Y" else data - y) - zeros
    pad = sl["%s_block_padding" % comp.lower()]
    if len(pad) != max(0, room):
        return "padding has %d bits, the component has room for %d" % (len(pad), max(0, room))
    return None


def real_hq_fill(sc, y, c1, c2, mn, comp, zeros, fi, al):
    from vc2_conformance.bitstream import HQSlice
    from vc2_conformance.pseudocode.state import State
    from vc2_conformance.test_cases.decoder.pictures import fill_hq_slice_padding
    from bitarray import bitarray

    name = ["Y", "C1", "C2"][comp]
    sl = HQSlice(qindex=3, slice_y_length=y, slice_c1_length=c1, slice_c2_length=c2,
                 y_transform=[5] * (zeros if comp == 0 else 2), c1_transform=[5] * (zeros if comp == 1 else 2), c2_transform=[5] * (zeros if comp == 2 else 2),
                 y_block_padding=bitarray(), c1_block_padding=bitarray(), c2_block_padding=bitarray())
    fill_hq_slice_padding(State(slice_size_scaler=sc), 0, 0, sl, name, FILLERS[fi], bool(al), mn)
    return sl, name


def decode_stream(stream):
    from vc2_conformance.bitstream import autofill_and_serialise_stream

    f = BytesIO()
    autofill_and_serialise_stream(f, copy.deepcopy(stream))
    return G.decode(f.getvalue())


def content(out):
    return [dict((c, p[c]) for c in ("Y", "C1", "C2")) for (p, vp, pcm) in out]


def violates(cf, thorough=False, limit=240):
    from vc2_conformance.test_cases import DECODER_TEST_CASE_GENERATOR_REGISTRY as REG
    from vc2_conformance.test_cases import normalise_test_case_generator

    d = G.dims(cf)
    names = set()
    ncases = 0
    skipped = []
    signal.signal(signal.SIGALRM, _alarm)
    signal.alarm(limit)
    try:
        for gen in REG.iter_registered_functions():
            gname = gen.__name__
            if gname in SLOW and not thorough:
                continue
            try:
                cases = list(normalise_test_case_generator(gen, cf))
            except Timeout:
                raise
            except Exception as e:  # noqa
                # a generator that fails outright for a valid configuration delivers none of its test cases (never seen on the
                # unchanged tree: generators that cannot serve a configuration log a warning and yield nothing)
                return "generator %s failed with %s: %s" % (gname, type(e).__name__, str(e)[:160]), ncases, skipped
            decoded = []
            for tc in cases:
                ncases += 1
                if tc.name in names:
                    return "test case name %s is used twice" % tc.name, ncases, skipped
                names.add(tc.name)
                verdict, out = decode_stream(tc.value)
                if verdict != "OK":
                    return "%s: the validator rejects the test case: %s" % (tc.name, verdict), ncases, skipped
                for (p, vp, pcm) in out:
                    if gname != "interlace_mode_and_pixel_aspect_ratio" and gname != "source_parameters_encodings":
                        pass
                    if pcm != cf["picture_coding_mode"]:
                        return "%s: decoded picture coding mode differs" % tc.name, ncases, skipped
                    if vp != cf["video_parameters"]:
                        return "%s: decoded video parameters differ from the configuration" % tc.name, ncases, skipped
                decoded.append((tc, out))
                if gname in SOURCE_FRAMES:
                    want = SOURCE_FRAMES[gname] * (2 if int(cf["picture_coding_mode"]) == 1 else 1)
                    if len(out) != want:
                        return ("%s decodes to %d pictures; the plain encoding of its documented source (%d frame(s)) has %d"
                                % (tc.name, len(out), SOURCE_FRAMES[gname], want)), ncases, skipped
                if gname in MIDGRAY:
                    for (p, vp, pcm) in out:
                        for c, (w, h, depth, _) in d.items():
                            if any(v != (1 << (depth - 1)) for row in p[c] for v in row):
                                return "%s: decoded picture is not exact mid-grey" % tc.name, ncases, skipped
                if gname == "picture_numbers":
                    want = PICTURE_NUMBERS.get(tc.subcase_name)
                    got = [p["pic_num"] for (p, vp, pcm) in out]
                    if want is None or got != want[:len(got)] or len(got) < 8:
                        return "%s: decoded picture numbers %s, documented %s" % (tc.name, got, want), ncases, skipped
            if gname in SAME_WITHIN and len(decoded) > 1:
                base = content(decoded[0][1])
                for tc, out in decoded[1:]:
                    c = content(out)
                    # variants may repeat the base pictures (e.g. several sequences): compare picture by picture, cyclically
                    if not c or any(pic != base[i % len(base)] for i, pic in enumerate(c)):
                        return "%s decodes to different pictures than %s (same source, different encoding)" % (tc.name, decoded[0][0].name), ncases, skipped
            if gname in ("source_parameters_encodings", "repeated_sequence_headers", "extended_transform_parameters") and decoded:
                # the plain encoding of the same source
                from vc2_conformance.picture_generators import static_sprite
                from vc2_conformance.encoder import make_sequence
                from vc2_conformance.bitstream import Stream

                pics = list(static_sprite(cf["video_parameters"], cf["picture_coding_mode"]))
                v, plain = decode_stream(Stream(sequences=[make_sequence(cf, pics)]))
                if v == "OK":
                    pc = content(plain)
                    for tc, out in decoded:
                        c = content(out)
                        if any(pic != pc[i % len(pc)] for i, pic in enumerate(c)):
                            return "%s decodes to different pictures than the plain encoding of the same source" % tc.name, ncases, skipped
    except Timeout:
        return None, ncases, skipped + ["timeout"]
    finally:
        signal.alarm(0)
    return None, ncases, skipped


class Prop(object):
    id = "C05"
    lean_modules = ["VC2.Props.C05"]
    status = "partial"
    rule = ("random small codec configurations (profiles, lossless, wavelet pairs, depths, slices, fragments, subsampling, coding modes, depths 8-12, custom/default matrices): every test case "
            "of the REAL decoder registry (all 20 generators; signal_range and real_pictures for two small configurations (one with two slice rows), six more in the thorough tier) is serialised and validated; names unique; configured parameters; "
            "encoding-variant generators decode picture-for-picture like their first case and like the plain encoding of the same source; mid-grey cases exact; picture-number cases as documented")
    trusted = ["the stream-structure model (C01) for the transparency lemmas; generated registry name table; the runner harness/codecgen.py",
               "hand-written model lean/VC2/Model/SlicePad.lean of the slice-padding fillers, tied by the `sp` correspondence",
               "that each generator is a content-preserving transformation is established by this experiment only"]
    assumptions = ["a generator that raises for a configuration is recorded as an observation (the property speaks about the test cases that are produced); known: signal_range for depth-0 transforms"]

    def correspond_fillers(self, ctx, rng):
        from vc2_conformance.test_cases.decoder.pictures import generate_filled_padding

        ld, hq, gp = fill_cases(rng, ctx.n(300, 5000))
        lines, exp = [], []
        for (sb, comp, zeros, fi, al) in ld:
            sl = real_ld_fill(sb, comp, zeros, fi, al)
            lines.append("sp L %d %s %d %s %d" % (sb, comp, zeros, ",".join(map(str, FILLERS[fi])), al))
            exp.append("%d %s" % (sl["slice_y_length"], bits(sl["%s_block_padding" % comp.lower()])))
            why = ld_fill_violation(sb, comp, zeros, fi, al)
            if why and not self._bad:
                self._bad = {"filler": "fill_ld_slice_padding", "args": [sb, comp, zeros, fi, al], "why": why}
        for a in hq:
            sl, name = real_hq_fill(*a)
            (sc, y, c1, c2, mn, comp, zeros, fi, al) = a
            lines.append("sp H %d %d %d %d %d %d %d %s %d" % (sc, y, c1, c2, mn, comp, zeros, ",".join(map(str, FILLERS[fi])), al))
            exp.append("%d,%d,%d %s" % (sl["slice_y_length"], sl["slice_c1_length"], sl["slice_c2_length"], bits(sl["%s_block_padding" % name.lower()])))
        for (n, fi, a) in gp:
            lines.append("sp G %d %s %d" % (n, ",".join(map(str, FILLERS[fi])), a))
            exp.append(bits(generate_filled_padding(n, FILLERS[fi], a)))
        ctx.count("filler-cases:ld", len(ld))
        ctx.count("filler-cases:hq", len(hq))
        ctx.count("filler-cases:generate", len(gp))
        ctx.diff("sp slice-padding fillers (fill_ld_slice_padding, fill_hq_slice_padding, generate_filled_padding) == model", lines, exp)

    def correspond(self, ctx):
        rng = ctx.rng("tc")
        self._bad = None
        self.correspond_fillers(ctx, ctx.rng("sp"))
        ctx.corr_names.append("REAL decoder test-case registry: every case valid, named uniquely, variants decode like their base, mid-grey exact, numbers as documented")
        cfs = directed_configs() + directed_asym_configs() + [rand_config(rng) for _ in range(ctx.n(25, 300))]
        for ci, cf in enumerate(cfs):
            try:
                # the two slow generators (signal_range, real_pictures: large analyses, natural pictures) run for a
                # few small configurations with several slice rows and columns (and six more in the thorough tier)
                why, n, skipped = violates(cf, ci in (0, 12) or (ctx.thorough and 20 <= ci < 26))
            except Exception as e:  # noqa
                why, n, skipped = "exception %s: %s" % (type(e).__name__, str(e)[:200]), 0, []
            ctx.evaluations += n
            ctx.count("configs")
            for s in skipped:
                ctx.count("generator-skipped:%s" % s)
            ctx.distinct.add(hash(json.dumps(G.describe(cf), sort_keys=True, default=str)))
            if why and not self._bad:
                self._bad = {"config": G.describe(cf), "why": why}

    def findings(self, ctx):
        return [self._bad] if self._bad else []

    def search(self, ctx):
        rng = ctx.rng("search")
        ld, hq, gp = fill_cases(rng, ctx.n(2000, 20000))
        for a in ld:
            try:
                why = ld_fill_violation(*a)
            except Exception as e:  # noqa
                why = "exception %s: %s" % (type(e).__name__, str(e)[:200])
            if why:
                return {"filler": "fill_ld_slice_padding", "args": list(a), "why": why}
        for cf in directed_configs() + directed_asym_configs() + [rand_config(rng) for _ in range(ctx.n(40, 400))]:
            try:
                why, n, skipped = violates(cf)
            except Exception as e:  # noqa
                why = "exception %s: %s" % (type(e).__name__, str(e)[:200])
            if why:
                return {"config": G.describe(cf), "why": why}
        return None

    def replay(self, ctx, path):
        from vc2_conformance.codec_features import CodecFeatures

        with open(path) as f:
            r = json.load(f)
        fi = r.get("failing_input")
        if not fi:
            print("replay names broken obligations only:", r.get("broken_obligations"))
            return 1
        if "filler" in fi:
            why = ld_fill_violation(*fi["args"])
            print("replay ->", why or "property holds")
            return 1 if why else 0
        why, n, skipped = violates(CodecFeatures(G.from_description(fi["config"]), name="cf"))
        print("replay ->", why or "property holds")
        return 1 if why else 0


PROP = Prop()
