"""C24 — test-case generation is deterministic and schedule-independent."""
import contextlib
import csv
import hashlib
import io
import json
import os
import shutil
import subprocess
import sys
import tempfile
from concurrent.futures import ThreadPoolExecutor

PY = "/venv/bin/python"

WORKER_PREAMBLE = r"""
import builtins, os, sys
_log = open(os.environ["C24_WRITE_LOG"], "a")
_open = builtins.open
def _traced(file, mode="r", *a, **k):
    if isinstance(file, (str, bytes, os.PathLike)) and any(c in mode for c in "wax+"):
        _log.write(os.fspath(file) + "\n"); _log.flush()
    return _open(file, mode, *a, **k)
builtins.open = _traced
import io
io.open = _traced
from vc2_conformance.scripts.vc2_test_case_generator.worker import main
main([sys.argv[1]])
"""


def make_csv(path, variant):
    """the test suite's minimal codec configuration; `two` adds a second column that differs only in its
    (custom) quantisation matrix - adjacent, lossy, same wavelets/depths/dimensions"""
    rows = list(csv.reader(open("/repo/tests/sample_codec_features.csv")))
    with open(path, "w", newline="") as f:
        w = csv.writer(f)
        for r in rows:
            if len(r) <= 2:
                w.writerow(r)
                continue
            key = r[0].strip()
            base = r[2]
            if variant == "one":
                w.writerow([r[0], base])
            else:
                # both columns: an interlaced source (so that the field order decides which lines go where); the second
                # column differs in what is signalled only or changes the coding only - quantisation matrix, field order,
                # frame rate - so anything one configuration's generation leaves behind in the process meets a sibling
                # that is as similar as possible
                second = base
                if key == "source_sampling":
                    base = second = "interlaced"
                elif key == "name":
                    second = "minimal-qm"
                elif key == "quantization_matrix":
                    second = "0 3 3 6"
                elif key == "top_field_first":
                    second = "FALSE"
                elif key == "frame_rate_numer":
                    second = "2"
                w.writerow([r[0], base, second])


def env_with(seed, **extra):
    e = dict(os.environ)
    e["PYTHONPATH"] = os.environ.get("VC2_REPO", "/repo")
    e["PYTHONHASHSEED"] = str(seed)
    e["PYTHONDONTWRITEBYTECODE"] = "1"
    e.update(extra)
    return e


def tree(root):
    out = {}
    for d, _, fs in os.walk(root):
        for fn in fs:
            p = os.path.join(d, fn)
            with open(p, "rb") as f:
                out[os.path.relpath(p, root)] = hashlib.sha256(f.read()).hexdigest()
    return out


LAST_CMD_INFO = None


def describe_cmd(code):
    """(codec name, 'encoder'|'decoder', generator function name) of one emitted worker command"""
    from vc2_conformance.scripts.vc2_test_case_generator.worker import decode

    fn = decode(code.strip())
    kind = "encoder" if fn.args[1].__name__ == "output_encoder_test_cases" else "decoder"
    return (fn.args[3]["name"], kind, fn.args[4].args[0].__name__)


def wp_lines(cmd_info, writes):
    """every traced write of every worker command must be a path the model says that command owns - and the next
    command in the list does not"""
    lines, exp = [], []
    n = len(cmd_info)
    for i, paths in sorted(writes.items()):
        for pth in paths:
            if " " in pth:
                continue
            lines.append("wp %s %s %s %s" % (cmd_info[i] + (pth,)))
            exp.append("own")
            j = (i + 1) % n
            if cmd_info[j] != cmd_info[i]:
                lines.append("wp %s %s %s %s" % (cmd_info[j] + (pth,)))
                exp.append("foreign")
    return lines, exp


def generate(work, variant, rng, n_workers=14):
    """-> (serial tree, worker tree, per-command write sets, notes)"""
    csvp = os.path.join(work, "codecs.csv")
    make_csv(csvp, variant)
    ser_dir, par_dir = os.path.join(work, "serial"), os.path.join(work, "workers")
    code = ("import sys; from vc2_conformance.scripts.vc2_test_case_generator.cli import main; "
            "sys.exit(main([%r, '--output', %r]))")
    serial = subprocess.Popen([PY, "-c", code % (csvp, ser_dir)], env=env_with(rng.randrange(1, 10 ** 6)),
                              stdout=subprocess.PIPE, stderr=subprocess.PIPE)
    # the worker commands, as the real command line tool prints them
    p = subprocess.run([PY, "-c", ("import sys; from vc2_conformance.scripts.vc2_test_case_generator.cli import main; "
                                   "sys.exit(main([%r, '--output', %r, '--parallel']))") % (csvp, par_dir)],
                       env=env_with(rng.randrange(1, 10 ** 6)), stdout=subprocess.PIPE, stderr=subprocess.PIPE, timeout=600)
    cmds = [l.split(" ", 1)[1] for l in p.stdout.decode().splitlines() if l.startswith("vc2-test-case-generator-worker ")]
    order = list(range(len(cmds)))
    rng.shuffle(order)
    logs = {}

    def run_one(i):
        log = os.path.join(work, "writes_%d.log" % i)
        logs[i] = log
        r = subprocess.run([PY, "-c", WORKER_PREAMBLE, cmds[i]], env=env_with(1000 + i, C24_WRITE_LOG=log),
                           stdout=subprocess.PIPE, stderr=subprocess.PIPE, timeout=900)
        return i, r.returncode, r.stderr.decode()[-300:]

    with ThreadPoolExecutor(max_workers=n_workers) as ex:
        results = list(ex.map(run_one, order))
    so, se = serial.communicate(timeout=1800)
    notes = []
    if serial.returncode != 0:
        notes.append("serial run exited %s: %s" % (serial.returncode, se.decode()[-300:]))
    for i, rc, err in results:
        if rc != 0:
            notes.append("worker command %d exited %s: %s" % (i, rc, err))
    writes = {}
    for i, log in logs.items():
        try:
            with open(log) as f:
                writes[i] = sorted(set(os.path.relpath(l.strip(), par_dir) for l in f if l.strip()))
        except IOError:
            writes[i] = []
    global LAST_CMD_INFO
    try:
        LAST_CMD_INFO = [describe_cmd(c) for c in cmds]
    except Exception as e:  # noqa
        LAST_CMD_INFO = None
        notes.append("worker command cannot be decoded: %s" % type(e).__name__)
    return tree(ser_dir), tree(par_dir), writes, notes, len(cmds)


def compare(ser, par, writes):
    if sorted(ser) != sorted(par):
        only_s = sorted(set(ser) - set(par))[:3]
        only_p = sorted(set(par) - set(ser))[:3]
        return "different sets of files: only serial %s, only workers %s" % (only_s, only_p)
    diff = sorted(k for k in ser if ser[k] != par[k])
    if diff:
        return "%d of %d files differ between the serial run and the shuffled concurrent worker run, e.g. %s" % (len(diff), len(ser), diff[:3])
    owner = {}
    for i, ps in writes.items():
        for pth in ps:
            if pth in owner and owner[pth] != i:
                return "two worker commands (%d and %d) write the same file %s" % (owner[pth], i, pth)
            owner[pth] = i
    missing = sorted(set(par) - set(owner))
    if missing:
        return "files not attributed to any worker command's traced writes: %s" % missing[:3]
    return None


class Prop(object):
    id = "C24"
    lean_modules = ["VC2.Props.C24", "VC2.Props.C24Paths"]
    status = "partial"
    rule = ("the REAL vc2-test-case-generator on a two-column codec-features CSV (the minimal configuration with an interlaced source and an adjacent lossy column differing only in its "
            "quantisation matrix, field order and frame rate): "
            "one serial run in one process vs the emitted --parallel worker commands each in its own process, in shuffled order, 14 at a time, every process under a different "
            "PYTHONHASHSEED; the two output trees are compared byte for byte; every worker's file writes are traced (open() wrapped in-process) to check that no two commands write the "
            "same path and that every file is attributed; thorough: a second round with other seeds/order and the single-column CSV")
    trusted = ["model WorkerFs.lean: its hypothesis of per-command determinism is what this experiment checks on the real commands",
               "model WorkerPaths.lean (where a command writes) tied to cli.py by the wp correspondence on the traced writes: disjointness of the write sets is then a theorem",
               "OS-level atomicity of individual writes and the absence of other sources of nondeterminism (time, environment) cannot be exhibited by the model: experiment only"]
    assumptions = ["the worker entry point is run as `python -c '... worker.main([code])'` (the console script is not on PATH in this sandbox)"]

    def correspond(self, ctx):
        rng = ctx.rng("gen")
        self._bad = None
        ctx.corr_names.append("REAL generator: serial run == shuffled concurrent worker run under different hash seeds; traced write sets pairwise disjoint")
        rounds = [("two",)] if not ctx.thorough else [("two",), ("one",), ("two",)]
        wl, we = [], []
        for (variant,) in rounds:
            work = tempfile.mkdtemp(prefix="c24_", dir=os.environ.get("TMPDIR", "/var/tmp"))
            try:
                ser, par, writes, notes, ncmds = generate(work, variant, rng)
                why = "; ".join(notes) if notes else compare(ser, par, writes)
                if LAST_CMD_INFO:
                    if len(set(LAST_CMD_INFO)) != len(LAST_CMD_INFO):
                        ctx.broke("correspondence", "wp", "two worker commands share (codec, kind, generator): %s" % LAST_CMD_INFO)
                    lines, exp = wp_lines(LAST_CMD_INFO, writes)
                    wl += lines
                    we += exp
                ctx.evaluations += len(ser) + len(par)
                ctx.count("files:%s" % variant, len(ser))
                ctx.count("worker-commands:%s" % variant, ncmds)
                for k in ser:
                    ctx.distinct.add(hash((variant, k)))
                if why and not self._bad:
                    self._bad = {"csv_variant": variant, "why": why}
            finally:
                shutil.rmtree(work, ignore_errors=True)
        ctx.diff("wp every traced write of every REAL worker command is a path the model says that command owns (and another command does not)", wl, we)

    def findings(self, ctx):
        return [self._bad] if self._bad else []

    def search(self, ctx):
        rng = ctx.rng("search")
        work = tempfile.mkdtemp(prefix="c24_", dir=os.environ.get("TMPDIR", "/var/tmp"))
        try:
            ser, par, writes, notes, ncmds = generate(work, "two", rng)
            why = "; ".join(notes) if notes else compare(ser, par, writes)
            return {"csv_variant": "two", "why": why} if why else None
        finally:
            shutil.rmtree(work, ignore_errors=True)

    def replay(self, ctx, path):
        with open(path) as f:
            r = json.load(f)
        fi = r.get("failing_input")
        if not fi:
            print("replay names broken obligations only:", r.get("broken_obligations"))
            return 1
        import random

        work = tempfile.mkdtemp(prefix="c24_", dir=os.environ.get("TMPDIR", "/var/tmp"))
        try:
            ser, par, writes, notes, ncmds = generate(work, fi.get("csv_variant", "two"), random.Random(0))
            why = "; ".join(notes) if notes else compare(ser, par, writes)
        finally:
            shutil.rmtree(work, ignore_errors=True)
        print("replay ->", why or "property holds")
        return 1 if why else 0


PROP = Prop()
