"""C19 — sequence completion (make_matching_sequence) is sound, complete and shortest."""
import json
import os

import symre_ref as ref
import common
from props.c18 import level_patterns, parse_code_names, toks_of


def real_mms(required, patterns, depth, priority):
    from vc2_conformance import symbol_re as sr

    try:
        out = sr.make_matching_sequence(list(required), *patterns, depth_limit=depth, symbol_priority=list(priority))
        return "OK " + " ".join("$" if s == "" else s for s in out)
    except sr.ImpossibleSequenceError:
        return "IMPOSSIBLE"
    except Exception as e:  # noqa
        return "CRASH:%s" % type(e).__name__


def line_for(required, patterns, depth, priority):
    return "re S 0 %d %s %s" % (depth, ",".join(priority) or "-",
                                " / ".join([" ".join(required)] + [toks_of(p) for p in patterns]))


def is_subsequence(req, out):
    it = iter(out)
    return all(any(x == y for y in it) for x in req)


def classify(required, patterns, asts, depth, priority, alphabet, result):
    """Compare the REAL result with the property (via the exhaustive reference search).
    Returns None (property holds on this input), or a dict with `kind` in
    {unsound, not-shortest, false-impossible, crash} and details."""
    if result.startswith("CRASH"):
        return {"kind": "crash", "why": result}
    # wildcard sentinel "." in results stands for "any symbol": give the reference an extra letter
    alpha = list(alphabet) + ["."]
    best = ref.shortest_completion(list(required), list(asts), depth, alpha)
    if result == "IMPOSSIBLE":
        if best is not None:
            return {"kind": "false-impossible", "why": "a valid completion exists: %s" % best}
        return None
    out = result.split()[1:]
    if not is_subsequence(required, out):
        return {"kind": "unsound", "why": "result %s does not contain the required symbols in order" % out}
    for a in asts:
        if not ref.complete(a, out):
            return {"kind": "unsound", "why": "result %s does not match pattern %s" % (out, ref.render2(a))}
    if best is not None and len(best) < len(out):
        return {"kind": "not-shortest", "why": "result has %d symbols, %s has %d" % (len(out), best, len(best))}
    return None


def gen_case(rng):
    n_pat = rng.randrange(1, 3)
    asts, pats = [], []
    for _ in range(n_pat):
        a = ref.gen_ast(rng, rng.randrange(1, 6), ("a", "b", "c", "."))
        dollar = rng.random() < 0.4
        pats.append(ref.render2(a) + (" $" if dollar else ""))
        asts.append(("C", a, ("S", "$")) if dollar else a)
    required = [rng.choice("abc") for _ in range(rng.randrange(0, 4))]
    depth = rng.choice([0, 1, 2, 3])
    priority = rng.choice([[], [], ["a"], ["c", "a"], ["b"]])
    return required, pats, asts, depth, priority


def gen_alternatives_case(rng):
    """a union of 2-3 WORDS of different lengths, each containing the required symbols in order (fillers before,
    between and after them): the shortest completion depends on which alternative the search settles on"""
    required = [rng.choice("abc") for _ in range(rng.choice([1, 1, 2]))]
    words = []
    for _ in range(rng.choice([2, 2, 3])):
        w = []
        for r in required:
            w += [rng.choice("abc") for _ in range(rng.choice([0, 0, 1, 2]))] + [r]
        w += [rng.choice("abc") for _ in range(rng.choice([0, 0, 1, 2]))]
        words.append(" ".join(w))
    pat = " | ".join(words)
    if rng.random() < 0.3:
        pat = "( %s ) $" % pat
    depth = rng.choice([1, 2, 3, 4])
    priority = rng.choice([[], [], ["a"], ["c", "a"], ["b"], ["c"]])
    return required, [pat], [ref.parse(pat)], depth, priority


class Prop(object):
    id = "C19"
    lean_modules = ["VC2.Props.C19"]
    status = "partial"
    rule = ("make_matching_sequence on random pattern sets (1-2 patterns, AST size <= 5 over {a,b,c,.}, optional trailing $) x required "
            "lists of length 0-3 x depth limits 0-3 x priorities, on unions of 2-3 words of different lengths that each contain the required symbols, and on the real (level pattern x test-case pattern x picture-list) "
            "combinations; the model's result (symbol list or IMPOSSIBLE) is compared with the real one; distinct = distinct op lines")
    trusted = ["hand-written model lean/VC2/Model/SymRe.lean (search part) tied to the code by this correspondence",
               "the reference completion search (harness/symre_ref.py) is used only to look for failing inputs / attribute known finding F5"]
    assumptions = ["required symbols, priorities and pattern symbols are non-empty strings"]

    def cases(self, ctx, rng, n):
        for _ in range(n):
            yield gen_case(rng) + (["a", "b", "c"],)
        for _ in range(n // 3):
            yield gen_alternatives_case(rng) + (["a", "b", "c"],)
        # exhaustive small family: all ordered pairs from a pool x all required lists of length <= 2
        pool = ["a", "a b", ". .", ". . .", "a . *", ". * b", "( a | b ) *", "a b . *", "a ? b", ". a", "b . *", "a b $"]
        for p1 in pool:
            for p2 in pool:
                for req in ref.words(["a", "b"], 2):
                    yield (req, [p1, p2], [ref.parse(p1), ref.parse(p2)], 2, [], ["a", "b", "c"])
        # real combinations
        names = parse_code_names()
        test_patterns = ["sequence_header .* end_of_sequence", "(. padding_data)+ end_of_sequence",
                         "sequence_header (. sequence_header)* end_of_sequence", ". auxiliary_data .*",
                         "(sequence_header .)* end_of_sequence"]
        for level, lp in level_patterns():
            for tp in test_patterns[: ctx.n(3, 5)]:
                for pics in (["high_quality_picture"] * 2, ["low_delay_picture"],
                             ["high_quality_picture_fragment"] * 3, []):
                    pats = ["sequence_header .* end_of_sequence", lp, tp]
                    yield (pics, pats, [ref.parse(p) for p in pats], 3, ["padding_data", "sequence_header"], names)

    def correspond(self, ctx):
        rng = ctx.rng("mms")
        lines, exp = [], []
        self._cases = []
        for required, pats, asts, depth, priority, alphabet in self.cases(ctx, rng, ctx.n(1500, 20000)):
            res = real_mms(required, pats, depth, priority)
            lines.append(line_for(required, pats, depth, priority))
            exp.append(res)
            self._cases.append((required, pats, asts, depth, priority, alphabet, res))
            ctx.count("mms:" + res.split()[0])
        # the greedy model's answer per case: needed by the F5 discriminator (a failure is F5's only if real == greedy model)
        self._model = ctx.driver.run(lines) if (lines and ctx.driver.available()) else []
        ctx.diff("re make_matching_sequence model (greedy queue search as written) == real", lines, exp)

    def findings(self, ctx):
        """Property-level comparison against the exhaustive reference on the same cases.
        Failures explained by the recorded finding F5 (greedy consumption of required symbols is not
        complete: the real result equals the greedy model's and only completeness/shortness is lost)
        are attributed to it; anything else is an unknown violation."""
        known = [k for k in common.known_findings("C19") if k.get("status") == "known"]
        f5 = [k for k in known if k["id"] == "F5"]
        unknown = []
        n_f5 = 0
        sample = None
        # the recorded replay first
        for k in f5:
            rp = k["replay"]
            asts = [ref.parse(p) for p in rp["patterns"]]
            res = real_mms(rp["required"], rp["patterns"], rp.get("depth_limit", 3), [])
            c = classify(rp["required"], rp["patterns"], asts, rp.get("depth_limit", 3), [], ["a", "b", "c"], res)
            if c is not None and c["kind"] in ("false-impossible", "not-shortest"):
                ctx.known_lines.append(
                    "KNOWN-FINDING: property=C19 F5 make_matching_sequence(%r, %s) -> %s although %s"
                    % (rp["required"], ", ".join(map(repr, rp["patterns"])), res, c["why"]))
            else:
                ctx.notes.append("F5 replay no longer fails (%s)" % res)
        budget = ctx.n(400, 6000)
        model = getattr(self, "_model", [])
        for ci, (required, pats, asts, depth, priority, alphabet, res) in enumerate(getattr(self, "_cases", [])[:budget]):
            if len(alphabet) > 5:
                continue  # reference search over the full data-unit alphabet is done in the thorough tier only
            c = classify(required, pats, asts, depth, priority, alphabet, res)
            if c is None:
                continue
            if c["kind"] in ("false-impossible", "not-shortest") and f5 and ci < len(model) and model[ci] == res:
                # discriminator: on THIS input the real result is exactly the greedy model's (the recorded defect);
                # an incomplete or longer answer that the greedy search as written would not give is a new violation
                n_f5 += 1
                sample = sample or {"required": required, "patterns": pats, "depth": depth, "result": res, "why": c["why"]}
                continue
            unknown.append({"required": required, "patterns": pats, "depth_limit": depth, "priority": priority,
                            "result": res, "kind": c["kind"], "why": c["why"]})
        ctx.extra["inputs_attributed_to_F5"] = n_f5
        if sample:
            ctx.extra["F5_example"] = sample
        return unknown

    def search(self, ctx):
        rng = ctx.rng("search")
        pending = []   # incomplete / longer answers: F5's only when the greedy model gives the same answer
        for i in range(ctx.n(4000, 40000)):
            required, pats, asts, depth, priority = gen_alternatives_case(rng) if i % 4 == 3 else gen_case(rng)
            res = real_mms(required, pats, depth, priority)
            c = classify(required, pats, asts, depth, priority, ["a", "b", "c"], res)
            if c is None:
                continue
            cand = {"required": required, "patterns": pats, "depth_limit": depth, "priority": priority,
                    "result": res, "kind": c["kind"], "why": c["why"]}
            if c["kind"] in ("unsound", "crash"):
                return cand
            pending.append((line_for(required, pats, depth, priority), res, cand))
        if pending and ctx.driver.available():
            got = ctx.driver.run([p[0] for p in pending])
            for (line, res, cand), g in zip(pending, got):
                if g != res:
                    cand["why"] += " (and the greedy search as written would answer %s: not the recorded finding F5)" % g
                    return cand
        return None

    def replay(self, ctx, path):
        with open(path) as f:
            r = json.load(f)
        fi = r.get("failing_input")
        if not fi:
            print("replay names broken obligations only:", r.get("broken_obligations"))
            return 1
        asts = [ref.parse(p) for p in fi["patterns"]]
        res = real_mms(fi["required"], fi["patterns"], fi["depth_limit"], fi.get("priority", []))
        c = classify(fi["required"], fi["patterns"], asts, fi["depth_limit"], fi.get("priority", []), ["a", "b", "c"], res)
        print("replay -> %s ; %s" % (res, c or "property holds"))
        return 1 if c else 0


PROP = Prop()
