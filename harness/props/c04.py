"""C04 — lossless and unquantised encodings reconstruct pictures exactly."""
import copy
import json

import codecgen as G


def all_qindex_zero(seq):
    """every slice of every picture / fragment of the encoder's sequence has qindex 0"""
    found = False
    for du in seq["data_units"]:
        for key in ("picture_parse", "fragment_parse"):
            node = du.get(key)
            if not node:
                continue
            td = node.get("wavelet_transform", {}).get("transform_data") if key == "picture_parse" else node.get("fragment_data")
            if not td:
                continue
            for name in ("hq_slices", "ld_slices"):
                for s in td.get(name, []):
                    found = True
                    if s.get("qindex", 0) != 0:
                        return False
    return found


def violates(cf, pics):
    data, seq = G.encode(cf, pics)
    exact = cf["lossless"] or all_qindex_zero(seq)
    if not exact:
        return None, "quantised"
    verdict, out = G.decode(data)
    if verdict != "OK":
        return "validator: %s" % verdict, "exact"
    if len(out) != len(pics):
        return "%d pictures decoded for %d inputs" % (len(out), len(pics)), "exact"
    for i, (p, (q, vp, pcm)) in enumerate(zip(pics, out)):
        for c in ("Y", "C1", "C2"):
            if q[c] != p[c]:
                bad = [(y, x) for y, (ra, rb) in enumerate(zip(p[c], q[c])) for x, (a, b) in enumerate(zip(ra, rb)) if a != b]
                return "picture %d component %s differs at %d positions (first %s: in %s out %s)" % (
                    i, c, len(bad), bad[:1], p[c][bad[0][0]][bad[0][1]] if bad else "?", q[c][bad[0][0]][bad[0][1]] if bad else "?"), "exact"
    return None, "lossless" if cf["lossless"] else "qindex0"


def big_slice_case(rng):
    """lossless, FEW LARGE slices, all the detail in ONE component (the others flat): a slice's coefficient block of
    that component alone exceeds 255 bytes, so the length fields need a slice size scaler chosen from the right component"""
    base = G.describe(G.rand_config(rng, lossless=True))
    d = rng.choice([10, 12, 16])
    cdf = rng.choice([0, 0, 1])
    desc = dict(base, profile=3, pcm=0, lossless=True, w=16, h=rng.choice([8, 12, 16]), cdf=cdf, ss=0, luma_off=0, luma_exc=(1 << d) - 1,
                cd_exc=(1 << d) - 1, cd_off=1 << (d - 1), wavelet=rng.choice([3, 4, 1]), depth=rng.choice([0, 1]), depth_ho=0,
                sx=rng.choice([1, 1, 2]), sy=1, frag=rng.choice([0, 0, 1]), picture_bytes=None, qm=None)
    desc["wavelet_ho"] = desc["wavelet"]
    desc.pop("meta", None)   # (the base configuration's clean area belongs to another frame size)
    cf = G.from_description(desc)
    dims = G.dims(cf)
    busy = rng.choice(["Y", "C1", "C2", "C2"])
    pic = {}
    for c, (w, h, depth, _) in dims.items():
        top = (1 << depth) - 1
        pic[c] = [[rng.randrange(0, top + 1) if c == busy else top // 2 for _ in range(w)] for _ in range(h)]
    return cf, [pic]


def rand_case(rng):
    if rng.random() < 0.12:
        return big_slice_case(rng)
    if rng.random() < 0.7:
        cf = G.rand_config(rng, lossless=True)
    else:
        # lossy with plenty of bytes: every slice is coded with qindex 0
        cf = G.rand_config(rng, lossless=False)
        n = cf["slices_x"] * cf["slices_y"]
        cf["picture_bytes"] = 4 * n + 1500
    return cf, G.rand_pictures(rng, cf)


def dc_lines(rng, n):
    """dc_prediction / apply_dc_prediction on random bands: model vs real"""
    from vc2_conformance.encoder.pictures import apply_dc_prediction
    from vc2_conformance.decoder.transform_data_syntax import dc_prediction

    lines, exp = [], []
    for _ in range(n):
        # bands up to 3x3: the function-valued model is evaluated naively (cost grows as 3^(w*h)); all four
        # prediction cases and their interplay occur; larger bands are exercised end to end below
        w, h = rng.choice([(1, 1), (2, 1), (1, 2), (2, 2), (3, 1), (1, 3), (3, 2), (2, 3), (4, 2), (2, 4), (3, 3)][:rng.choice([8, 8, 8, 11])])
        big = rng.random() < 0.2
        band = [[rng.randrange(-2 ** 70, 2 ** 70) if big else rng.randrange(-300, 300) for _ in range(w)] for _ in range(h)]
        for op, fn in (("E", apply_dc_prediction), ("D", dc_prediction)):
            b = copy.deepcopy(band)
            fn(b)
            lines.append("dc %s %d %d %s" % (op, w, h, " ".join(str(v) for row in band for v in row)))
            exp.append(" ".join(str(v) for row in b for v in row))
    return lines, exp


class Prop(object):
    id = "C04"
    lean_modules = ["VC2.Props.C04", "VC2.Props.C04Pipeline"]
    status = "partial"
    rule = ("random small configurations (all 7x7 wavelet pairs, depths 0-3 x 0-2, 1-4 x 1-3 slices, fragments, 4:4:4/4:2:2/4:2:0, frames/fields, luma depths 1-16, "
            "custom and default quantisation matrices) in lossless mode, and lossy mode with enough picture bytes that every slice has qindex 0, with noise / all-max / all-min / "
            "constant / checkerboard / ramp pictures: REAL encoder -> serialiser -> validator, decoded samples compared with the input; plus dc_prediction and "
            "apply_dc_prediction on random bands (incl. 70-bit values) compared with the model")
    trusted = ["models Picture.lean (DC prediction, offset, clip), Wavelet.lean (C11), generated quantisation kernels (C12) with their correspondences",
               "the composition of the proved links into the real encoder/decoder is validated end to end by this check, not proved"]
    assumptions = ["pixel values within the configured bit depth"]

    def correspond(self, ctx):
        rng = ctx.rng("e2e")
        self._bad = None
        lines, exp = dc_lines(rng, ctx.n(150, 1500))
        ctx.diff("dc dc_prediction / apply_dc_prediction on random bands: model == real", lines, exp)
        ctx.corr_names.append("REAL encode -> serialise -> validate/decode: lossless and qindex-0 pictures are reproduced exactly")
        for _ in range(ctx.n(900, 25000)):
            cf, pics = rand_case(rng)
            try:
                why, kind = violates(cf, pics)
            except Exception as e:  # noqa
                why, kind = "exception %s: %s" % (type(e).__name__, str(e)[:160]), "exact"
            ctx.evaluations += 1
            ctx.count("e2e:%s" % kind)
            ctx.count("e2e:wavelets:%d,%d" % (int(cf["wavelet_index"]), int(cf["wavelet_index_ho"])))
            if kind != "quantised":
                ctx.distinct.add(hash(json.dumps(G.describe(cf), sort_keys=True, default=str)))
            if why and not self._bad:
                self._bad = {"config": G.describe(cf), "pictures": pics, "why": why}

    def findings(self, ctx):
        return [self._bad] if self._bad else []

    def search(self, ctx):
        rng = ctx.rng("search")
        for _ in range(ctx.n(2500, 40000)):
            cf, pics = rand_case(rng)
            try:
                why, kind = violates(cf, pics)
            except Exception as e:  # noqa
                why = "exception %s: %s" % (type(e).__name__, str(e)[:160])
            if why:
                return {"config": G.describe(cf), "pictures": pics, "why": why}
        return None

    def replay(self, ctx, path):
        with open(path) as f:
            r = json.load(f)
        fi = r.get("failing_input")
        if not fi:
            print("replay names broken obligations only:", r.get("broken_obligations"))
            return 1
        why, kind = violates(G.from_description(fi["config"]), fi["pictures"])
        print("replay ->", why or "property holds")
        return 1 if why else 0


PROP = Prop()
