"""C16 — the encoder respects any level table it claims to satisfy."""
import contextlib
import copy
import json
import sys
from io import BytesIO

sys.path.insert(0, "/repo/tests")

import common

# the recorded finding F8: level keys the validator checks and the encoder never consults
F8_KEYS = set()
for k in common.known_findings("C16"):
    if k.get("status") == "known":
        F8_KEYS |= set(k.get("replay", {}).get("keys", []))


@contextlib.contextmanager
def level_override(restrictions, pattern=None):
    """replace level 1 by a synthetic table: every key `any` except `restrictions` (as the test suite does);
    `restrictions` is one column (a dict) or a LIST of columns (a level whose admissible combinations differ by column)"""
    from vc2_conformance.level_constraints import LEVEL_CONSTRAINTS, LEVEL_SEQUENCE_RESTRICTIONS, LevelSequenceRestrictions
    from vc2_conformance.constraint_table import ValueSet, AnyValue
    from vc2_data_tables import Levels

    orig = copy.deepcopy(LEVEL_CONSTRAINTS)
    orig_seq = copy.deepcopy(LEVEL_SEQUENCE_RESTRICTIONS)
    try:
        keys = list(LEVEL_CONSTRAINTS[0].keys())
        for i in reversed(range(len(LEVEL_CONSTRAINTS))):
            if Levels(1) in LEVEL_CONSTRAINTS[i]["level"]:
                del LEVEL_CONSTRAINTS[i]
        for column in (restrictions if isinstance(restrictions, list) else [restrictions]):
            col = dict((k, AnyValue()) for k in keys)
            col["level"] = ValueSet(Levels(1))
            for k, vals in column.items():
                vs = ValueSet()
                for v in vals:
                    if isinstance(v, (tuple, list)):
                        vs.add_range(*v)
                    else:
                        vs.add_value(v)
                col[k] = vs
            LEVEL_CONSTRAINTS.append(col)
        LEVEL_SEQUENCE_RESTRICTIONS[Levels(1)] = LevelSequenceRestrictions("synthetic", pattern or ".*")
        yield
    finally:
        del LEVEL_CONSTRAINTS[:]
        LEVEL_CONSTRAINTS.extend(orig)
        LEVEL_SEQUENCE_RESTRICTIONS.clear()
        LEVEL_SEQUENCE_RESTRICTIONS.update(orig_seq)


def rand_restrictions(rng):
    """a few keys restricted to values that either admit or exclude what a small configuration needs"""
    menu = {
        "profile": [[0], [3], [0, 3]],
        "picture_coding_mode": [[0], [1]],
        "base_video_format": [[0], [1, 2], [0, 1, 2, 3]],
        "custom_dimensions_flag": [[True], [False]],
        "frame_width": [[(1, 64)], [8], [(100, 200)]],
        "frame_height": [[(1, 64)], [4], [(100, 200)]],
        "custom_color_diff_format_flag": [[True], [False]],
        "custom_scan_format_flag": [[True], [False]],
        "custom_frame_rate_flag": [[True], [False]],
        "frame_rate_index": [[0], [(1, 5)], [(0, 12)]],
        "custom_pixel_aspect_ratio_flag": [[True], [False]],
        "custom_clean_area_flag": [[True], [False]],
        "custom_signal_range_flag": [[True], [False]],
        "custom_signal_range_index": [[0], [(1, 4)]],
        "custom_color_spec_flag": [[True], [False]],
        "color_spec_index": [[0], [(1, 4)]],
        "custom_color_primaries_flag": [[True], [False]],
        "custom_color_matrix_flag": [[True], [False]],
        "custom_transfer_function_flag": [[True], [False]],
        "wavelet_index": [[(0, 6)], [1], [4]],
        "dwt_depth": [[(0, 3)], [0], [2]],
        "asym_transform_index_flag": [[True], [False]],
        "asym_transform_flag": [[True], [False]],
        "wavelet_index_ho": [[(0, 6)], [1], [4]],
        "slices_x": [[(1, 4)], [1], [2]],
        "slices_y": [[(1, 3)], [1]],
        "slices_have_same_dimensions": [[True], [False]],
        "slice_prefix_bytes": [[0], [(0, 8)]],
        "slice_bytes_numerator": [[(1, 1000)], [12]],
        "slice_bytes_denominator": [[(1, 100)], [1]],
        "custom_quant_matrix": [[True], [False]],
        # keys of the recorded finding F8 (the encoder does not consult them)
        "quant_matrix_values": [[(0, 3)], [(0, 127)]],
        "major_version": [[1], [2], [3], [(1, 3)]],
        "minor_version": [[0], [1]],
        "slice_size_scaler": [[1], [2], [(1, 4)]],
        "qindex": [[0], [(0, 127)]],
        "total_slice_bytes": [[(0, 5)], [(0, 100000)]],
        "dwt_depth_ho": [[0], [(0, 2)]],
    }
    keys = rng.sample(sorted(menu), rng.choice([1, 1, 2, 3]))
    if rng.random() < 0.3:
        # a level with TWO columns that differ in another key (one per profile, or per picture coding mode): the same keys
        # restricted differently in each - a value must be chosen from the column the configuration falls under
        split, (a, b) = rng.choice([("profile", ([3], [0])), ("picture_coding_mode", ([0], [1]))])
        # (not the keys of the recorded finding F8: with several columns a value the encoder never consults selects the
        #  WRONG column for the validator, and the rejection then names some other key - it could not be attributed)
        keys = [k for k in keys if k != split and k not in F8_KEYS]
        cols = []
        for side in (a, b):
            col = dict((k, rng.choice(menu[k])) for k in keys)
            col[split] = side
            cols.append(col)
        return cols
    return dict((k, rng.choice(menu[k])) for k in keys)


def plain(restr):
    """JSON-friendly copy of a restriction (one column or a list of columns)"""
    if isinstance(restr, list):
        return [plain(c) for c in restr]
    return dict((k, [list(v) if isinstance(v, tuple) else v for v in vs]) for k, vs in restr.items())


PIC = "(low_delay_picture | high_quality_picture | low_delay_picture_fragment | high_quality_picture_fragment)"
PATTERNS = [
    None, None, None,   # no ordering restriction
    "sequence_header .* end_of_sequence",
    "sequence_header auxiliary_data .* end_of_sequence",
    "sequence_header .* padding_data end_of_sequence",
    "sequence_header (padding_data | %s)* auxiliary_data end_of_sequence" % PIC,
    "(sequence_header %s)* end_of_sequence" % PIC,                       # a header before every picture / fragment
    "(sequence_header %s+)+ end_of_sequence" % PIC,                      # at least one picture
    "sequence_header (auxiliary_data %s+)* end_of_sequence" % PIC,
    "sequence_header %s* (padding_data padding_data)? end_of_sequence" % PIC,
    "sequence_header ( (sequence_header | auxiliary_data | padding_data | low_delay_picture | high_quality_picture)* | (sequence_header | auxiliary_data | padding_data | low_delay_picture_fragment | high_quality_picture_fragment)*) end_of_sequence",
]


def rand_pattern_and_pictures(rng, cf):
    """an ordering pattern and a picture list of 0-2 frames (an empty sequence is a legitimate input of make_sequence)"""
    import codecgen as G

    pattern = rng.choice(PATTERNS)
    frames = rng.choice([0, 1, 1, 1, 2])
    if frames == 0:
        return pattern, []
    return pattern, G.rand_pictures(rng, cf, n=frames)


def directed_geometry_trials():
    """the one level key that depends on the picture GEOMETRY (slices_have_same_dimensions, forced true or false) against
    every combination of source sampling x picture coding mode x frame height x slice rows where frame and field heights
    differ in divisibility -> [(config, pictures, restrictions)]"""
    import random
    import codecgen as G
    from vc2_conformance.codec_features import CodecFeatures
    from vc2_data_tables import Levels

    rng = random.Random(16)
    base = G.describe(G.rand_config(rng, lossless=False, profile=None))
    out = []
    for ss in (0, 1):
        for pcm in (0, 1):
            for h, sy in ((4, 2), (6, 2), (12, 4), (12, 3), (8, 3), (20, 4)):
                for depth in (0, 1):
                    d = dict(base, profile=3, pcm=pcm, lossless=False, w=8, h=h, cdf=0, ss=ss, luma_off=0, luma_exc=255, cd_exc=255, cd_off=128,
                             wavelet=4, wavelet_ho=4, depth=depth, depth_ho=0, sx=2, sy=sy, frag=0, picture_bytes=8 * h * 3,
                             qm={0: {"LL": 0}} if depth == 0 else {0: {"LL": 0}, 1: {"HL": 1, "LH": 1, "HH": 2}})
                    d.pop("meta", None)
                    cf = CodecFeatures(G.from_description(d), level=Levels(1))
                    pics = G.rand_pictures(rng, cf, n=1)
                    for want in (True, False):
                        out.append((cf, pics, {"slices_have_same_dimensions": [want]}))
    return out


def rand_config(rng):
    import codecgen as G
    from vc2_conformance.codec_features import CodecFeatures
    from vc2_data_tables import Levels

    cf = G.rand_config(rng)
    cf = CodecFeatures(cf, level=Levels(1))
    return cf


def rejected_key(exc):
    from vc2_conformance import decoder

    name = type(exc).__name__
    if name == "ValueNotAllowedInLevel":
        return exc.key
    if name == "QuantisationMatrixValueNotAllowedInLevel":
        return "quant_matrix_values"
    return None


def trial(cf, pics, restrictions, pattern=None):
    """-> (outcome, detail): 'encoder-refuses' | 'accepted' | 'known:<key>' | 'violation'"""
    import codecgen as G
    from vc2_conformance import decoder
    from vc2_conformance.encoder.exceptions import UnsatisfiableCodecFeaturesError
    from vc2_conformance.pseudocode.state import State

    with level_override(restrictions, pattern):
        try:
            data, seq = G.encode(cf, pics)
        except UnsatisfiableCodecFeaturesError as e:
            return "encoder-refuses", type(e).__name__
        except Exception as e:  # noqa
            return "violation", "the encoder failed with %s: %s (not an unsatisfiable-configuration error)" % (type(e).__name__, str(e)[:160])
        st = State(_output_picture_callback=lambda *a: None)
        decoder.init_io(st, BytesIO(data))
        try:
            decoder.parse_stream(st)
            return "accepted", None
        except decoder.ConformanceError as e:
            key = rejected_key(e)
            if key in F8_KEYS:
                return "known:%s" % key, None
            return "violation", "the validator rejects the encoder's stream under the same level table: %s (key %s): %s" % (
                type(e).__name__, key, str(e).split("\n")[0][:160])


class Prop(object):
    id = "C16"
    lean_modules = ["VC2.Props.C16"]
    status = "partial"
    rule = ("synthetic level tables of one column, or of TWO columns split by profile or picture coding mode with the same keys restricted differently in each (level 1 replaced in-process as the test suite does; 1-3 of 38 keys restricted: flags forced true/false, preset-only or custom-only indices, "
            "restricted base formats, sizes, wavelets, depths, slice parameters, quantisation-matrix values, versions), each with one of twelve data-unit ORDERING PATTERNS (none; required auxiliary/padding units before, between or after the pictures; a header before every picture; at least one picture; the real levels' pattern) x random small codec configurations x 0-2 frames of pictures (an empty sequence included): either the REAL encoder raises "
            "an unsatisfiable-configuration error or the REAL validator accepts the serialised stream under the same table; plus the REAL level tables: the header the encoder chooses for every row; a rejection naming one of the recorded F8 keys is attributed "
            "to that finding, any other rejection is a violation; plus the real level tables via C03/C15")
    trusted = ["C17's constraint-table model and correspondence; the key inventories are regenerated from the sources each run (string-literal occurrence: an over-approximation of 'consulted')",
               "attribution of a rejection to F8 is by the key named in ValueNotAllowedInLevel / QuantisationMatrixValueNotAllowedInLevel"]
    assumptions = ["the full statement is false of the unchanged code (F8, DESIGN §7): the claim is the partial theorem plus 'no violation outside the recorded keys'"]

    def correspond(self, ctx):
        import codecgen as G

        rng = ctx.rng("lv")
        self._bad = None
        self._known = {}
        ctx.corr_names.append("REAL encoder + validator under synthetic single-column level tables")
        todo = [(cf, pics, restr, None) for cf, pics, restr in directed_geometry_trials()]
        ctx.count("directed-geometry-trials", len(todo))
        for _ in range(ctx.n(700, 15000)):
            cf = rand_config(rng)
            pattern, pics = rand_pattern_and_pictures(rng, cf)
            todo.append((cf, pics, rand_restrictions(rng) if rng.random() < 0.8 else {}, pattern))
        for cf, pics, restr, pattern in todo:
            try:
                out, detail = trial(cf, pics, restr, pattern)
            except Exception as e:  # noqa
                out, detail = "violation", "exception %s: %s" % (type(e).__name__, str(e)[:160])
            ctx.evaluations += 1
            ctx.count("trial:%s" % out.split(":")[0])
            ctx.count("pattern:%s:pictures:%d" % ("none" if pattern is None else "restricted", len(pics)))
            if out.startswith("known:"):
                self._known.setdefault(out[6:], {"config": G.describe(cf), "restrictions": plain(restr)})
            if out != "encoder-refuses":
                ctx.distinct.add(hash(json.dumps([G.describe(cf), plain(restr)], sort_keys=True, default=str)))
                ctx.count("table:%s" % ("two-columns" if isinstance(restr, list) else "one-column"))
            if out == "violation" and not self._bad:
                self._bad = {"config": G.describe(cf), "pictures": pics, "pattern": pattern,
                             "restrictions": plain(restr), "why": detail}
        self.real_levels(ctx)

    def real_levels(self, ctx):
        """the real level tables for the formats they admit: the sequence header the encoder chooses for every
        (level, column, base format, coding mode) of the real table must be accepted under that level"""
        import re
        from props import c15

        ctx.corr_names.append("REAL encoder's sequence header under the REAL level tables, for every row of the table")
        for cf in c15.level_formats():
            try:
                why, n = c15.violates(cf, max_headers=1)
            except Exception as e:  # noqa
                why, n = "exception %s: %s" % (type(e).__name__, str(e)[:160]), 0
            ctx.evaluations += 1
            ctx.count("real-level:%s" % ("refused" if n == 0 and not why else ("ok" if not why else "rejected")))
            if why:
                m = re.search(r"The (\w+) value", why)
                if m and m.group(1) in F8_KEYS:
                    self._known.setdefault(m.group(1), {"real_level_format": c15.describe(cf)})
                elif not self._bad:
                    self._bad = {"real_level_format": c15.describe(cf), "why": "under the real level %d: %s" % (int(cf["level"]), why)}

    def directed_f8(self):
        """one directed replay per recorded key (minimal HQ configuration, one restricted key)"""
        import codecgen as G
        from sample_codec_features import MINIMAL_CODEC_FEATURES as CF
        from vc2_conformance.codec_features import CodecFeatures
        from vc2_data_tables import Levels, WaveletFilters

        base = dict(level=Levels(1), name="f8")
        cases = {
            "qindex": (CodecFeatures(CF, picture_bytes=10, **base), {"qindex": [0]}),
            "major_version": (CodecFeatures(CF, **base), {"major_version": [1]}),
            "minor_version": (CodecFeatures(CF, **base), {"minor_version": [1]}),
            "slice_size_scaler": (CodecFeatures(CF, **base), {"slice_size_scaler": [2]}),
            "total_slice_bytes": (CodecFeatures(CF, **base), {"total_slice_bytes": [(0, 5)]}),
            "quant_matrix_values": (CodecFeatures(CF, dwt_depth=1, quantization_matrix={0: {"LL": 0}, 1: {"HL": 8, "LH": 8, "HH": 8}}, **base),
                                    {"quant_matrix_values": [(0, 3)]}),
            "dwt_depth_ho": (CodecFeatures(CF, dwt_depth_ho=1, quantization_matrix={0: {"L": 0}, 1: {"H": 0}, 2: {"HL": 0, "LH": 0, "HH": 0}}
                                           if CF["dwt_depth"] == 1 else {0: {"L": 0}, 1: {"H": 0}}, **base), {"dwt_depth_ho": [0]}),
            "wavelet_index_ho": (CodecFeatures(CF, wavelet_index_ho=WaveletFilters(2), dwt_depth=0, dwt_depth_ho=0,
                                               quantization_matrix={0: {"LL": 0}}, **base), {"wavelet_index_ho": [1]}),
        }
        seen = []
        for key in sorted(F8_KEYS):
            if key not in cases:
                continue
            cf, restr = cases[key]
            try:
                pics = G.rand_pictures(__import__("random").Random(1), cf, n=1)
                out, detail = trial(cf, pics, restr)
            except Exception as e:  # noqa
                out = "error:%s" % type(e).__name__
            if out == "known:%s" % key:
                seen.append(key)
        return seen

    def findings(self, ctx):
        seen = sorted(set(self.directed_f8()) | set(self._known))
        ctx.extra["f8_keys_observed"] = seen
        if seen:
            ctx.known_lines.append("KNOWN-FINDING: property=C16 F8 the encoder does not consult the level key(s) %s: under a level table restricting "
                                   "one of them it returns a sequence that the validator rejects (ValueNotAllowedInLevel naming that key)" % ", ".join(seen))
        return [self._bad] if self._bad else []

    def search(self, ctx):
        import codecgen as G
        import re
        from props import c15

        for cf in c15.level_formats():
            try:
                why, n = c15.violates(cf, max_headers=1)
            except Exception as e:  # noqa
                why = "exception %s: %s" % (type(e).__name__, str(e)[:160])
            if why:
                m = re.search(r"The (\w+) value", why)
                if not (m and m.group(1) in F8_KEYS):
                    return {"real_level_format": c15.describe(cf), "why": "under the real level %d: %s" % (int(cf["level"]), why)}
        rng = ctx.rng("search")
        todo = [(cf, pics, restr, None) for cf, pics, restr in directed_geometry_trials()]
        for _ in range(ctx.n(2000, 30000)):
            cf = rand_config(rng)
            pattern, pics = rand_pattern_and_pictures(rng, cf)
            todo.append((cf, pics, rand_restrictions(rng) if rng.random() < 0.8 else {}, pattern))
        for cf, pics, restr, pattern in todo:
            try:
                out, detail = trial(cf, pics, restr, pattern)
            except Exception as e:  # noqa
                continue
            if out == "violation":
                return {"config": G.describe(cf), "pictures": pics, "pattern": pattern,
                        "restrictions": plain(restr), "why": detail}
        return None

    def replay(self, ctx, path):
        import codecgen as G
        from vc2_conformance.codec_features import CodecFeatures
        from vc2_data_tables import Levels

        with open(path) as f:
            r = json.load(f)
        fi = r.get("failing_input")
        if not fi:
            print("replay names broken obligations only:", r.get("broken_obligations"))
            return 1
        if "real_level_format" in fi:
            from props import c15
            for cf in c15.level_formats():
                if c15.describe(cf) == fi["real_level_format"]:
                    why, n = c15.violates(cf, max_headers=1)
                    print("replay real level %s ->" % fi["real_level_format"]["level"], why or "property holds")
                    return 1 if why else 0
            print("replay: that row of the level table no longer exists")
            return 1
        cf = CodecFeatures(G.from_description(fi["config"]), level=Levels(1))
        restr = fi["restrictions"]   # (ranges are lists here: level_override accepts both)
        out, detail = trial(cf, fi["pictures"], restr, fi.get("pattern"))
        print("replay ->", out, detail or "")
        return 1 if out == "violation" else 0


PROP = Prop()
