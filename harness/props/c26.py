"""C26 — the bitstream viewer never reports an internal error."""
import contextlib
import io
import json
import os
import shutil
import signal
import tempfile

import bytesgen as B

OPTION_SETS = [
    [],
    ["--no-status"],
    ["--show-internal-state", "--no-status"],
    ["--verbose", "--no-status"],
    ["--hide-slice", "--no-status"],
    ["--offset", "200", "--context", "64", "--no-status"],
    ["--from-offset", "100", "--to-offset", "-8", "--no-status"],
    ["--show", "parse_info", "--no-status"],
    ["--hide", "slice", "--no-status", "--ignore-parse-info-prefix"],
    # WITH the status line (drawn whenever something is hidden) and stop offsets that resolve to 0 / before the start
    ["--hide", "parse_info", "--to-offset", "0"],
    ["--show", "padding", "--to-offset", "-4096"],
    ["--from-offset", "64"],
    ["--hide-slice", "--from-offset", "-40"],
]


def run_viewer(data, options, limit=5):
    """the REAL command main([...]) -> status | 'TIMEOUT'"""
    from vc2_conformance.scripts.vc2_bitstream_viewer import main

    d = tempfile.mkdtemp(prefix="c26_")
    try:
        src = os.path.join(d, "in.vc2")
        with open(src, "wb") as f:
            f.write(data)
        out, err = io.StringIO(), io.StringIO()
        signal.signal(signal.SIGALRM, B._alarm)
        signal.alarm(limit)
        try:
            with contextlib.redirect_stdout(out), contextlib.redirect_stderr(err):
                try:
                    code = main([src] + options)
                except SystemExit as e:
                    code = e.code
        except B.Timeout:
            return "TIMEOUT", ""
        finally:
            signal.alarm(0)
        return code, err.getvalue()
    finally:
        shutil.rmtree(d, ignore_errors=True)


def rand_payload(rng):
    """payload bytes with runs of one repeated hex DIGIT that start / end inside a byte (the viewer elides long runs of
    equal digits), next to random bytes; lengths 0..~60"""
    digits = ""
    for _ in range(rng.randrange(0, 4)):
        c = rng.random()
        if c < 0.55:
            digits += "".join(rng.choice("0123456789abcdef") for _ in range(rng.randrange(0, 5)))
            digits += rng.choice("0f0f37a5") * rng.randrange(8, 50)
            digits += "".join(rng.choice("0123456789abcdef") for _ in range(rng.randrange(0, 5)))
        else:
            digits += "".join(rng.choice("0123456789abcdef") for _ in range(rng.randrange(0, 12)))
    if len(digits) % 2:
        digits += rng.choice("0123456789abcdef")
    return bytes.fromhex(digits)


def payload_stream(rng):
    """a sequence of padding / auxiliary data units with such payloads (serialised by the real serialiser)"""
    from io import BytesIO
    from vc2_conformance.bitstream import (Stream, Sequence, DataUnit, ParseInfo, Padding, AuxiliaryData,
                                           autofill_and_serialise_stream)
    from vc2_data_tables import ParseCodes

    dus = []
    for _ in range(rng.randrange(1, 4)):
        if rng.random() < 0.5:
            dus.append(DataUnit(parse_info=ParseInfo(parse_code=ParseCodes.padding_data), padding=Padding(bytes=rand_payload(rng))))
        else:
            dus.append(DataUnit(parse_info=ParseInfo(parse_code=ParseCodes.auxiliary_data), auxiliary_data=AuxiliaryData(bytes=rand_payload(rng))))
    dus.append(DataUnit(parse_info=ParseInfo(parse_code=ParseCodes.end_of_sequence)))
    f = BytesIO()
    autofill_and_serialise_stream(f, Stream(sequences=[Sequence(data_units=dus)]))
    return f.getvalue()


class Prop(object):
    id = "C26"
    lean_modules = ["VC2.Props.C26"]
    status = "partial"
    rule = ("the 12 conformant seed streams (incl. one with a custom quantisation matrix) and their byte- and field-level mutations and random data, and sequences of padding / auxiliary data units whose payloads hold long runs of one hex digit that start or end inside a byte, written to a file and "
            "shown by the REAL command main([...]) under the default options and 12 sampled option sets (internal state, verbose, hide-slice, offset windows incl. stop offsets 0 and before the start, show/hide filters with and without the status line, "
            "ignore prefix): the return code must be one of 0 (ok), 2 (bad prefix), 3 (end of file), 4 (parse failure) and never 255; inputs over the size bound or slower than 5 s are skipped")
    trusted = ["model ViewerCli.lean covers only the error classification and exit-status decision; the display code is not modelled: for it this check is a search on the real program, which is support, not proof"]
    assumptions = ["same size bound as the validator checks (inputs the guarded validator reports as out of scope are skipped)"]

    def correspond(self, ctx):
        rng = ctx.rng("viewer")
        self._bad = None
        seeds = B.seeds()
        ctx.corr_names.append("REAL vc2-bitstream-viewer main() on mutated byte strings: return code in {0,2,3,4}")
        cases = [(n, d, o) for n, d in seeds for o in OPTION_SETS[:3]]
        for _ in range(ctx.n(900, 15000)):
            n, d = rng.choice(seeds)
            cases.append((n, B.mutate(rng, d), rng.choice(OPTION_SETS) if rng.random() < 0.5 else []))
        for _ in range(ctx.n(120, 3000)):
            cases.append(("payloads", payload_stream(rng), rng.choice([[], ["--no-status"], ["--verbose", "--no-status"], ["--show", "padding"]])))
        for n, data, opts in cases:
            if B.validate(data) in ("OUT-OF-SCOPE", "TIMEOUT"):
                ctx.count("viewer:skipped")
                continue
            code, err = run_viewer(data, opts)
            ctx.evaluations += 1
            ctx.count("viewer:status:%s" % code)
            ctx.distinct.add(hash((data, tuple(opts))))
            if code not in (0, 2, 3, 4, "TIMEOUT") and not self._bad:
                self._bad = {"seed": n, "bytes": data.hex(), "options": opts, "why": "viewer returned %s: %s" % (code, err.strip()[-300:])}
        ctx.traces += len(cases)

    def findings(self, ctx):
        return [self._bad] if self._bad else []

    def search(self, ctx):
        rng = ctx.rng("search")
        seeds = B.seeds()
        for n, d in seeds:
            code, err = run_viewer(d, [])
            if code not in (0, 2, 3, 4, "TIMEOUT"):
                return {"seed": n, "bytes": d.hex(), "options": [], "why": "viewer returned %s: %s" % (code, err.strip()[-300:])}
        for _ in range(ctx.n(2000, 30000)):
            n, d = rng.choice(seeds)
            m = B.mutate(rng, d)
            if B.validate(m) in ("OUT-OF-SCOPE", "TIMEOUT"):
                continue
            opts = rng.choice(OPTION_SETS)
            if rng.random() < 0.15:
                n, m = "payloads", payload_stream(rng)
            code, err = run_viewer(m, opts)
            if code not in (0, 2, 3, 4, "TIMEOUT"):
                return {"seed": n, "bytes": m.hex(), "options": opts, "why": "viewer returned %s: %s" % (code, err.strip()[-300:])}
        return None

    def replay(self, ctx, path):
        with open(path) as f:
            r = json.load(f)
        fi = r.get("failing_input")
        if not fi:
            print("replay names broken obligations only:", r.get("broken_obligations"))
            return 1
        code, err = run_viewer(bytes.fromhex(fi["bytes"]), fi.get("options", []))
        print("replay -> status", code)
        return 1 if code not in (0, 2, 3, 4, "TIMEOUT") else 0


PROP = Prop()
