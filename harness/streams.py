"""
Builds VC-2 streams from abstract data-unit histories using the REAL encoder and serialiser
(every field explicit), runs the REAL validator, and renders the same history as a `vd` line
for the Lean stream-structure model.

History tokens (one per data unit), optional modifiers after ':' separated by ':':
  H0 / H1        sequence header (H1 = a differing but individually valid header)
  P<n>           whole picture, picture number n      X<n> = picture of the OTHER profile
  F<n>           first fragment (slice count 0) of picture n
  D<n>.<c>.<x>.<y>  continuation fragment: number n, c slices, offset (x, y)
  A<len> Z<len>  auxiliary data / padding with <len> payload bytes
  E              end of sequence
  modifiers      n0 (next_parse_offset = 0)  nw (true + 1)  n<k>  |  p0  pw (true + 1)  p<k>
Sequences are separated by the token '/'.  A sequence may start with a configuration token
  C<hq|ld>.<pcm>.<major_version|->   overriding profile, picture coding mode and major version
for that sequence only (used by the concatenation property C10).
"""
import copy
import sys
from io import BytesIO

sys.path.insert(0, "/repo/tests")


class Config(object):
    def __init__(self, profile="hq", pcm=0, major_version=None, fragment=True, level_pattern=None, slices=(2, 1)):
        self.profile = profile          # "hq" | "ld"
        self.pcm = pcm                  # 0 frames, 1 fields
        self.major_version = major_version  # None = what autofill computes for this history
        self.level_pattern = level_pattern  # None = level 0's own pattern (".*")
        self.slices = slices

    def key(self):
        return (self.profile, self.pcm, self.slices)


_KITS = {}


class Kit(object):
    """Ready-made, individually valid data units for one configuration."""

    def __init__(self, cfg):
        from sample_codec_features import MINIMAL_CODEC_FEATURES as CF
        from vc2_conformance.codec_features import CodecFeatures
        from vc2_conformance.encoder.sequence_header import make_sequence_header_data_unit
        from vc2_conformance.encoder.pictures import make_picture_data_units
        from vc2_data_tables import Profiles, PictureCodingModes, ParseCodes

        sx, sy = cfg.slices
        kw = dict(slices_x=sx, slices_y=sy, picture_coding_mode=PictureCodingModes(cfg.pcm))
        vp = copy.deepcopy(CF["video_parameters"])
        if cfg.pcm == 1:
            vp["frame_height"] = 8  # two 4-line fields
        kw["video_parameters"] = vp
        if cfg.profile == "ld":
            kw.update(profile=Profiles.low_delay, picture_bytes=24)
        self.cf_pic = CodecFeatures(CF, fragment_slice_count=0, **kw)
        self.cf_frag = CodecFeatures(CF, fragment_slice_count=1, **kw)
        h = 4
        pic = {"Y": [[10] * 8] * h, "C1": [[20] * 8] * h, "C2": [[30] * 8] * h, "pic_num": 0}
        self.header = make_sequence_header_data_unit(self.cf_pic)
        vp2 = copy.deepcopy(vp)
        vp2["frame_rate_numer"], vp2["frame_rate_denom"] = 30, 1
        self.header_alt = make_sequence_header_data_unit(CodecFeatures(self.cf_pic, video_parameters=vp2))
        self.picture = make_picture_data_units(self.cf_pic, copy.deepcopy(pic))[0]
        frs = make_picture_data_units(self.cf_frag, copy.deepcopy(pic))
        self.frag_first = frs[0]
        self.frag_slices = frs[1:]  # one slice each, raster order
        self.pic_code = int(self.picture["parse_info"]["parse_code"])
        self.frag_code = int(self.frag_first["parse_info"]["parse_code"])
        other = {int(ParseCodes.high_quality_picture): int(ParseCodes.low_delay_picture),
                 int(ParseCodes.low_delay_picture): int(ParseCodes.high_quality_picture)}
        self.other_pic_code = other[self.pic_code]
        self.cfg = cfg


def kit(cfg):
    k = cfg.key()
    if k not in _KITS:
        _KITS[k] = Kit(cfg)
    return _KITS[k]


def parse_token(tok):
    parts = tok.split(":")
    return parts[0], parts[1:]


def make_unit(k, body):
    """-> (DataUnit, model fields dict)"""
    from vc2_conformance.bitstream import DataUnit, ParseInfo, AuxiliaryData, Padding
    from vc2_data_tables import ParseCodes

    c = body[0]
    if c == "H":
        u = copy.deepcopy(k.header if body[1:] == "0" else k.header_alt)
        return u, dict(kind="H", code=0x00, a=int(body[1:]))
    if c in "PX":
        u = copy.deepcopy(k.picture)
        n = int(body[1:])
        u["picture_parse"]["picture_header"]["picture_number"] = n
        code = k.pic_code
        if c == "X":
            code = k.other_pic_code
            u["parse_info"]["parse_code"] = ParseCodes(code)
        return u, dict(kind="P", code=code, a=n)
    if c == "F":
        u = copy.deepcopy(k.frag_first)
        n = int(body[1:])
        u["fragment_parse"]["fragment_header"]["picture_number"] = n
        return u, dict(kind="F", code=k.frag_code, a=n)
    if c == "D":
        n, cnt, x, y = [int(v) for v in body[1:].split(".")]
        u = copy.deepcopy(k.frag_slices[0])
        fh = u["fragment_parse"]["fragment_header"]
        fh["picture_number"] = n
        fh["fragment_slice_count"] = cnt
        fh["fragment_x_offset"] = x
        fh["fragment_y_offset"] = y
        fd = u["fragment_parse"]["fragment_data"]
        key = "hq_slices" if "hq_slices" in fd else "ld_slices"
        one = fd[key][0]
        fd[key] = [copy.deepcopy(one) for _ in range(cnt)]
        return u, dict(kind="D", code=k.frag_code, a=n, b=cnt, c=x, d=y)
    if c == "A":
        ln = int(body[1:])
        u = DataUnit(parse_info=ParseInfo(parse_code=ParseCodes.auxiliary_data),
                     auxiliary_data=AuxiliaryData(bytes=b"\xAA" * ln))
        return u, dict(kind="A", code=0x20)
    if c == "Z":
        ln = int(body[1:])
        u = DataUnit(parse_info=ParseInfo(parse_code=ParseCodes.padding_data), padding=Padding(bytes=b"\x55" * ln))
        return u, dict(kind="Z", code=0x30)
    if c == "E":
        return DataUnit(parse_info=ParseInfo(parse_code=ParseCodes.end_of_sequence)), dict(kind="E", code=0x10)
    raise ValueError(body)


_BYTES = {}


def _serialise_units(units):
    """serialise one carrier sequence (automatic offsets) -> list of per-unit byte strings"""
    from vc2_conformance.bitstream import Stream, Sequence, autofill_and_serialise_stream

    f = BytesIO()
    autofill_and_serialise_stream(f, Stream(sequences=[Sequence(data_units=units)]))
    data = f.getvalue()
    out, pos = [], 0
    while pos < len(data):
        assert data[pos:pos + 4] == b"BBCD"
        nxt = int.from_bytes(data[pos + 5:pos + 9], "big")
        end = pos + nxt if nxt else len(data)
        out.append(data[pos:end])
        pos = end
    assert len(out) == len(units)
    return out


def unit_bytes(cfg, body, version):
    """bytes of one individually valid data unit (parse offsets still automatic placeholders),
    produced by the REAL serialiser inside a valid carrier sequence with the given major_version"""
    key = (cfg.key(), body, version)
    if key in _BYTES:
        return _BYTES[key]
    k = kit(cfg)
    if body[0] == "X":
        # a GENUINE picture of the other profile (its own parse code and its own payload syntax): individually valid,
        # but not permitted by this sequence's profile
        other = Config(profile="ld" if cfg.profile == "hq" else "hq", pcm=cfg.pcm, slices=cfg.slices)
        b, meta = unit_bytes(other, "P" + body[1:], max(version, 2))
        _BYTES[key] = (bytes(b), dict(meta))
        return _BYTES[key]
    hdr = copy.deepcopy(k.header)
    hdr["sequence_header"]["parse_parameters"]["major_version"] = version
    u, meta = make_unit(k, body)
    from vc2_conformance.bitstream.vc2_autofill import get_transform_parameters

    def strip(unit):
        tp = get_transform_parameters(unit)
        if tp is not None and version < 3:
            tp.pop("extended_transform_parameters", None)
        return unit

    eos = make_unit(k, "E")[0]
    if meta["kind"] == "H":
        u["sequence_header"]["parse_parameters"]["major_version"] = version
        b = _serialise_units([u, eos])[0]
    elif meta["kind"] == "D":
        first = strip(make_unit(k, "F%d" % meta["a"])[0])
        b = _serialise_units([hdr, first, u, eos])[2]
    elif meta["kind"] == "E":
        b = _serialise_units([hdr, u])[1]
    else:
        b = _serialise_units([hdr, strip(u), eos])[1]
    if meta["kind"] == "H":
        meta["major_version"] = version
        meta["profile"] = int(k.header["sequence_header"]["parse_parameters"]["profile"])
    _BYTES[key] = (b, meta)
    return _BYTES[key]


def auto_version(cfg, tokens):
    """the minimal major_version the features of this sequence need (what autofill computes)"""
    v = 2 if cfg.profile == "hq" else 1
    if any(t[0] in "FD" for t in tokens):
        v = 3
    return v


_HID = {}


def build(cfg, history):
    """history: list of tokens ('/' separates sequences).
    Returns (bytes, per-unit model fields incl. true lengths and declared offsets (None = sequence
    boundary), list of major versions used)."""
    seqs = [[]]
    for tok in history:
        if tok == "/":
            seqs.append([])
        else:
            seqs[-1].append(tok)
    out = bytearray()
    flat = []
    versions = []
    base_cfg = cfg
    for si, toks in enumerate(seqs):
        cfg = base_cfg
        if toks and toks[0][0] == "C":
            prof, pcm, mv = toks[0][1:].split(".")
            cfg = Config(profile=prof, pcm=int(pcm), major_version=None if mv == "-" else int(mv), slices=base_cfg.slices)
            toks = toks[1:]
        version = cfg.major_version if cfg.major_version is not None else auto_version(cfg, toks)
        versions.append(version)
        metas, chunks = [], []
        for tok in toks:
            body, mods = parse_token(tok)
            b, meta = unit_bytes(cfg, body, version)
            meta = dict(meta)
            meta["mods"] = mods
            meta["pcm"] = cfg.pcm
            meta["len"] = len(b)
            if meta["kind"] == "H":  # identity of the sequence header's payload bytes (what the validator compares)
                meta["hid"] = _HID.setdefault(bytes(b[13:]), len(_HID))
            metas.append(meta)
            chunks.append(bytearray(b))
        for ui, (meta, b) in enumerate(zip(metas, chunks)):
            true_next = meta["len"] if ui < len(metas) - 1 else 0
            true_prev = metas[ui - 1]["len"] if ui > 0 else 0
            nxt, prv = true_next, true_prev
            for m in meta["mods"]:
                if m == "n0":
                    nxt = 0
                elif m == "nw":
                    nxt = true_next + 1
                elif m[0] == "n":
                    nxt = int(m[1:])
                elif m == "p0":
                    prv = 0
                elif m == "pw":
                    prv = true_prev + 1
                elif m[0] == "p":
                    prv = int(m[1:])
            b[5:9] = nxt.to_bytes(4, "big")
            b[9:13] = prv.to_bytes(4, "big")
            meta["next"], meta["prev"] = nxt, prv
            out += b
            flat.append(meta)
        if si < len(seqs) - 1:
            flat.append(None)
    return bytes(out), flat, versions


def validate(data, level_pattern=None, collect=None):
    """Run the REAL validator.  -> 'OK' | '<ConformanceError subclass>' | 'CRASH:<type>'"""
    from vc2_conformance import decoder
    from vc2_conformance.pseudocode.state import State
    from vc2_conformance import level_constraints as lc
    import importlib

    dsh = importlib.import_module("vc2_conformance.decoder.sequence_header")

    pics = []
    st = State(_output_picture_callback=lambda p, vp, pcm: pics.append(p["pic_num"]))
    old = None
    if level_pattern is not None:
        old = dsh.LEVEL_SEQUENCE_RESTRICTIONS[0]
        dsh.LEVEL_SEQUENCE_RESTRICTIONS[0] = type(old)(old.sequence_restriction_explanation, level_pattern)
    try:
        decoder.init_io(st, BytesIO(data))
        try:
            decoder.parse_stream(st)
            res = "OK"
        except decoder.ConformanceError as e:
            res = type(e).__name__
            # every reported error must be explainable / locatable
            try:
                e.explain(); e.bitstream_viewer_hint(); e.offending_offset()
            except Exception as e2:  # noqa
                res = "CRASH-IN-REPORT:%s:%s" % (res, type(e2).__name__)
        except Exception as e:  # noqa
            res = "CRASH:%s" % type(e).__name__
    finally:
        if old is not None:
            dsh.LEVEL_SEQUENCE_RESTRICTIONS[0] = old
    if collect is not None:
        collect.extend(pics)
    return res


def model_line(cfg, flat, level_pattern_tokens):
    """`vd <profileHQ 0/1> <pcm> <sx> <sy> <level pattern tokens> | unit ; unit ; …`
    unit = kind code len next prev a b c d   ('/' = sequence boundary)"""
    k = kit(cfg)
    sx, sy = cfg.slices
    head = "vd %d %d %d %d %s ::" % (1 if cfg.profile == "hq" else 0, cfg.pcm, sx, sy, level_pattern_tokens)
    parts = []
    for m in flat:
        if m is None:
            parts.append("/")
            continue
        if m["kind"] == "H":
            parts.append("H %d %d %d %d %d %d %d %d" % (m["code"], m["len"], m["next"], m["prev"], m["hid"], m["major_version"], m["profile"], m["pcm"]))
        else:
            parts.append("%s %d %d %d %d %d %d %d %d" % (m["kind"], m["code"], m["len"], m["next"], m["prev"],
                                                       m.get("a", 0), m.get("b", 0), m.get("c", 0), m.get("d", 0)))
    return head + " " + " ; ".join(parts)


# ---------------------------------------------------------------------------------------------
# Independent reference acceptor, written from the text of property C01 (declarative, per
# sequence).  Used ONLY by failing-input searches: "the real validator's accept/reject differs
# from the rules" is the violation predicate; it never decides a verdict by itself.
NAMES = {0x00: "sequence_header", 0x10: "end_of_sequence", 0x20: "auxiliary_data", 0x30: "padding_data",
         0xC8: "low_delay_picture", 0xE8: "high_quality_picture", 0xCC: "low_delay_picture_fragment",
         0xEC: "high_quality_picture_fragment"}
PROFILE_CODES = {0: {0x00, 0x10, 0x20, 0x30, 0xC8, 0xCC}, 3: {0x00, 0x10, 0x20, 0x30, 0xE8, 0xEC}}


def reference_accepts(flat, slices, level_pattern=None):
    """flat: per-unit dicts from build() (None markers ignored).  -> (bool, reason)"""
    import symre_ref as R

    sx, sy = slices
    units = [m for m in flat if m is not None]
    # split into sequences: each ends with its end-of-sequence unit
    seqs, cur = [], []
    for m in units:
        cur.append(m)
        if m["kind"] == "E":
            seqs.append(cur)
            cur = []
    if cur:
        return False, "stream ends inside a sequence"
    for seq in seqs:
        if seq[0]["kind"] != "H":
            return False, "sequence does not start with a sequence header"
        hdr = seq[0]
        mv, prof, pcm = hdr["major_version"], hdr["profile"], hdr["pcm"]
        names = [NAMES[m["code"]] for m in seq]
        if level_pattern is not None and not R.complete(R.parse(level_pattern), names):
            return False, "level ordering pattern"
        need = max(1, 2 if prof == 3 else 1)
        if mv < need:
            return False, "profile needs a higher version"
        last_num, npics, frag = None, 0, None  # frag = (number, received) while a fragmented picture is open
        for i, m in enumerate(seq):
            # parse offsets
            if m["prev"] != (seq[i - 1]["len"] if i else 0):
                return False, "previous parse offset"
            if m["kind"] == "E":
                if m["next"] != 0:
                    return False, "non-zero next offset at end of sequence"
            elif m["next"] != m["len"] and not (m["next"] == 0 and m["kind"] in "PFD"):
                return False, "next parse offset"
            # sequence headers byte-identical
            if m["kind"] == "H" and m["hid"] != hdr["hid"]:
                return False, "sequence header changed"
            # profile / version permitted parse codes
            if m["code"] not in PROFILE_CODES[prof]:
                return False, "parse code not in profile"
            code_need = 3 if m["code"] in (0xCC, 0xEC) else (2 if m["code"] == 0xE8 else 1)
            if mv < code_need:
                return False, "parse code needs a higher version"
            need = max(need, code_need)
            # pictures and fragments
            if m["kind"] in "PF":
                if frag is not None:
                    return False, "picture or new fragmented picture inside a fragmented picture"
                if last_num is not None and m["a"] != (last_num + 1) % 2 ** 32:
                    return False, "picture numbers not consecutive"
                if pcm == 1 and npics % 2 == 0 and m["a"] % 2:
                    return False, "first field has an odd number"
                last_num, npics = m["a"], npics + 1
                if m["kind"] == "F":
                    frag = (m["a"], 0)
                    if sx * sy == 0:
                        frag = None
            elif m["kind"] == "D":
                if frag is None:
                    return False, "slices without a fragmented picture in progress"
                num, got = frag
                if m["a"] != num:
                    return False, "picture number changed inside a fragmented picture"
                if got + m["b"] > sx * sy:
                    return False, "too many slices"
                if (m["c"], m["d"]) != (got % sx, got // sx):
                    return False, "slices not contiguous"
                got += m["b"]
                frag = None if got == sx * sy else (num, got)
        if frag is not None:
            return False, "incomplete fragmented picture"
        if pcm == 1 and npics % 2:
            return False, "odd number of fields"
        if mv > need and not (npics == 0 and mv == 3):
            return False, "major version not minimal"
    return True, "conformant"
