"""
Independent reference semantics for the data-unit pattern language (used only by the
failing-input searches of C18/C19 and to generate patterns): Brzozowski derivatives over
ASTs written from the property text.

AST: ("E",) empty word | ("S", label) | ("*", e) | ("C", a, b) | ("U", a, b) | ("0",) empty language
Labels: "." wildcard (any real symbol), "$" end marker (matched only by the end marker), else literal.
"""
import itertools

EMPTY = ("0",)
EPS = ("E",)


def nullable(r):
    t = r[0]
    if t == "E" or t == "*":
        return True
    if t == "S" or t == "0":
        return False
    if t == "C":
        return nullable(r[1]) and nullable(r[2])
    return nullable(r[1]) or nullable(r[2])


def is_empty_lang(r):
    t = r[0]
    if t == "0":
        return True
    if t in ("E", "S", "*"):
        return False
    if t == "C":
        return is_empty_lang(r[1]) or is_empty_lang(r[2])
    return is_empty_lang(r[1]) and is_empty_lang(r[2])


def cat(a, b):
    if a == EMPTY or b == EMPTY:
        return EMPTY
    if a == EPS:
        return b
    if b == EPS:
        return a
    return ("C", a, b)


def alt(a, b):
    if a == EMPTY:
        return b
    if b == EMPTY:
        return a
    if a == b:
        return a
    return ("U", a, b)


def deriv(r, x):
    """x is a real symbol, or "$" for the end marker."""
    t = r[0]
    if t in ("E", "0"):
        return EMPTY
    if t == "S":
        l = r[1]
        if x == "$":
            return EPS if l == "$" else EMPTY
        if l == "." or l == x:
            return EPS if l != "$" else EMPTY
        return EMPTY
    if t == "*":
        return cat(deriv(r[1], x), r)
    if t == "C":
        d = cat(deriv(r[1], x), r[2])
        if nullable(r[1]):
            d = alt(d, deriv(r[2], x))
        return d
    return alt(deriv(r[1], x), deriv(r[2], x))


def after(r, word):
    for x in word:
        r = deriv(r, x)
    return r


def viable(r, word):
    """word is a prefix of some word of L(r)"""
    return not is_empty_lang(after(r, word))


def complete(r, word):
    """the whole sequence matches: word in L(r), or the end marker may follow"""
    d = after(r, word)
    return nullable(d) or not is_empty_lang(deriv(d, "$"))


def labels(r):
    t = r[0]
    if t == "S":
        return {r[1]}
    if t in ("E", "0"):
        return set()
    if t == "*":
        return labels(r[1])
    return labels(r[1]) | labels(r[2])


def render(r):
    """pattern string in the library's syntax (fully parenthesised)"""
    t = r[0]
    if t == "E":
        return "( )"  # not used by the generators (empty group is not valid syntax) -- see gen
    if t == "S":
        return r[1]
    if t == "*":
        return "( %s ) *" % render(r[1])
    if t == "C":
        return "%s %s" % (render_p(r[1]), render_p(r[2]))
    return "%s | %s" % (render_p(r[1]), render_p(r[2]))


def render_p(r):
    return render(r) if r[0] == "S" else "( %s )" % render(r)


def gen_ast(rng, size, alphabet=("a", "b", ".")):
    """random AST without `$` (added by the caller at the end only) and without EPS leaves"""
    if size <= 1:
        return ("S", rng.choice(alphabet))
    c = rng.random()
    if c < 0.25:
        return ("*", gen_ast(rng, size - 1, alphabet))
    k = rng.randrange(1, size)
    if c < 0.65:
        return ("C", gen_ast(rng, k, alphabet), gen_ast(rng, size - k, alphabet))
    return ("U", gen_ast(rng, k, alphabet), gen_ast(rng, size - k, alphabet))


def all_asts(size, alphabet=("a", "b", ".")):
    if size == 1:
        for s in alphabet:
            yield ("S", s)
        return
    for e in all_asts(size - 1, alphabet):
        yield ("*", e)
        yield ("U", e, EPS)  # e?
    for k in range(1, size - 1):
        for a in all_asts(k, alphabet):
            for b in all_asts(size - 1 - k, alphabet):
                yield ("C", a, b)
                yield ("U", a, b)


def render2(r):
    """renderer that supports the `?` form U(e, EPS)"""
    t = r[0]
    if t == "S":
        return r[1]
    if t == "*":
        return "%s *" % render2_p(r[1])
    if t == "U" and r[2] == EPS:
        return "%s ?" % render2_p(r[1])
    if t == "C":
        return "%s %s" % (render2_p(r[1]), render2_p(r[2]))
    return "%s | %s" % (render2_p(r[1]), render2_p(r[2]))


def render2_p(r):
    return render2(r) if r[0] == "S" else "( %s )" % render2(r)


# ----------------------------------------------------------------- independent parser
def parse(pattern):
    """Standard-precedence parser (postfix > concatenation > alternation) for pattern strings."""
    import re

    toks = re.findall(r"\w+|[.$?*+|()]", pattern)
    pos = [0]

    def peek():
        return toks[pos[0]] if pos[0] < len(toks) else None

    def alt_():
        left = cat_()
        while peek() == "|":
            pos[0] += 1
            left = ("U", left, cat_())
        return left

    def cat_():
        items = []
        while peek() is not None and peek() not in ("|", ")"):
            items.append(post_())
        if not items:
            return EPS
        r = items[-1]
        for it in reversed(items[:-1]):
            r = ("C", it, r)
        return r

    def post_():
        t = peek()
        pos[0] += 1
        if t == "(":
            a = alt_()
            assert peek() == ")", "unbalanced"
            pos[0] += 1
        else:
            a = ("S", t)
        while peek() in ("?", "*", "+"):
            m = peek()
            pos[0] += 1
            if m == "*":
                a = ("*", a)
            elif m == "+":
                a = ("C", a, ("*", a))
            else:
                a = ("U", a, EPS)
        return a

    r = alt_()
    assert pos[0] == len(toks), "trailing tokens"
    return r


def words(alphabet, maxlen):
    for n in range(maxlen + 1):
        for w in itertools.product(alphabet, repeat=n):
            yield list(w)


# ----------------------------------------------------------------- reference completion search
def shortest_completion(required, asts, depth_limit, alphabet):
    """Shortest supersequence of `required` (insertions only, at most `depth_limit`
    consecutive insertions) matching every pattern; None if none exists.  Exhaustive BFS
    over (position in required, tuple of derivative states, consecutive insertions)."""
    from collections import deque

    start = (0, tuple(asts), 0)
    seen = {start}
    q = deque([(start, [])])
    while q:
        (i, states, run), word = q.popleft()
        if i == len(required) and all(nullable(s) or not is_empty_lang(deriv(s, "$")) for s in states):
            return word
        nxt = []
        if i < len(required):
            x = required[i]
            ns = tuple(deriv(s, x) for s in states)
            if not any(is_empty_lang(s) for s in ns):
                nxt.append(((i + 1, ns, 0), word + [x]))
        if run < depth_limit:
            for x in alphabet:
                ns = tuple(deriv(s, x) for s in states)
                if not any(is_empty_lang(s) for s in ns):
                    nxt.append(((i, ns, run + 1), word + [x]))
        for st, w in nxt:
            if st not in seen:
                seen.add(st)
                q.append((st, w))
    return None
