#!/bin/sh
# try_seed_patch.sh <patch.diff> <Cxx> [tier]: apply a seeded change to a THROW-AWAY worktree of /repo's HEAD, run the
# check against that tree (VC2_REPO), remove the worktree. /repo's working tree is never touched.
P="$(readlink -f "$1")"; ID="$2"; TIER="${3:-quick}"
V="$(cd "$(dirname "$0")/.." && pwd)"
WT="/tmp/wt_try_$$"
git -C /repo worktree add -q --detach "$WT" HEAD || exit 2
( cd "$WT" && git apply "$P" ) || { git -C /repo worktree remove --force "$WT"; echo "patch does not apply"; exit 2; }
sh "$V/harness/try_seed_wt.sh" "$WT" "$ID" "$TIER"
git -C /repo worktree remove --force "$WT"
