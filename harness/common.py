"""
Shared machinery of the checks: paths, seeding, Lean build/audit, driver process,
known findings, evidence files and the VIOLATION protocol.
"""
from __future__ import print_function

import fcntl
import json
import os
import random
import re
import subprocess
import sys
import time

HERE = os.path.dirname(os.path.abspath(__file__))
ROOT = os.path.dirname(HERE)  # the directory of ./check (may be a snapshot)
# VC2_LEAN_DIR: a private copy of the Lean project (used when a seeded change is tried against another tree, so that
# concurrent runs never share generated files or build output); registered commands never set it
LEAN_DIR = os.environ.get("VC2_LEAN_DIR") or os.path.join(ROOT, "lean")
GEN_DIR = os.path.join(LEAN_DIR, "VC2", "Gen")
# VC2_OUT_DIR: where a seeded-change trial writes its evidence and replay (never set by registered commands)
_OUT = os.environ.get("VC2_OUT_DIR") or ROOT
EVIDENCE_DIR = os.path.join(_OUT, "evidence")
REPLAY_DIR = os.path.join(_OUT, "replays")
CORPUS_DIR = os.path.join(ROOT, "corpus")
REPO = os.environ.get("VC2_REPO", "/repo")
GUARD = "VC2_CONFORMANCE_VERIF"

ALLOWED_AXIOMS = {"propext", "Classical.choice", "Quot.sound"}
FORBIDDEN_SRC = re.compile(
    r"\b(sorry|admit|native_decide|bv_decide|implemented_by|unsafe)\b|^\s*axiom\s|maxHeartbeats\s+0\b"
)

TRUSTED_BASE = [
    "Lean 4.33.0 kernel (and leanchecker re-check in the thorough tier)",
    "axioms: propext, Classical.choice, Quot.sound only (audited by #print axioms on every property theorem, every run); no native_decide, no bv_decide, no user axioms, no sorry",
    "CPython 3.12 integer/list/dict semantics and the `ast` module",
]


def seed():
    try:
        return int(os.environ.get("VERIF_SEED", "0"))
    except ValueError:
        return 0


def tier(argv_tier=None):
    t = argv_tier or os.environ.get("VERIF_TIER") or "quick"
    return "thorough" if t == "thorough" else "quick"


def rng_for(pid, salt=""):
    return random.Random("%s/%s/%d" % (pid, salt, seed()))


def log(*a):
    print(*a, file=sys.stderr)
    sys.stderr.flush()


# --------------------------------------------------------------------------- Lean
class BuildResult(object):
    def __init__(self, ok, output, failed_decls, wall):
        self.ok = ok
        self.output = output
        self.failed = failed_decls
        self.wall = wall


def _lock():
    os.makedirs(os.path.join(LEAN_DIR, ".lake"), exist_ok=True)
    f = open(os.path.join(LEAN_DIR, ".lake", "verif.lock"), "w")
    fcntl.flock(f, fcntl.LOCK_EX)
    return f


def lake_build(targets, timeout=3000):
    """Build the given lake targets (module names or `driver`) under an exclusive lock."""
    t0 = time.time()
    lock = _lock()
    try:
        p = subprocess.run(
            ["lake", "build"] + list(targets),
            cwd=LEAN_DIR,
            stdout=subprocess.PIPE,
            stderr=subprocess.STDOUT,
            timeout=timeout,
        )
    finally:
        lock.close()
    out = p.stdout.decode("utf-8", "replace")
    failed = []
    for m in re.finditer(r"^error: (\S+\.lean):(\d+):(\d+):\s*(.*)$", out, re.M):
        failed.append({"file": m.group(1), "line": int(m.group(2)), "msg": m.group(4)[:300]})
    # attribute each error to the enclosing theorem
    for f in failed:
        f["decl"] = enclosing_decl(os.path.join(LEAN_DIR, f["file"]), f["line"])
    return BuildResult(p.returncode == 0, out, failed, time.time() - t0)


DECL_RE = re.compile(r"^\s*(?:@\[[^\]]*\]\s*)?(?:private\s+|protected\s+)?(theorem|lemma|def|example|instance|abbrev)\s+([^\s:({\[]+)?")


def enclosing_decl(path, line):
    try:
        with open(path) as f:
            lines = f.read().split("\n")
    except IOError:
        return None
    for i in range(min(line, len(lines)) - 1, -1, -1):
        m = DECL_RE.match(lines[i])
        if m:
            return "%s %s" % (m.group(1), m.group(2) or "<anonymous>")
    return None


def theorems_in(module):
    """Names of theorems declared in a Props module (with namespace prefix)."""
    path = os.path.join(LEAN_DIR, module.replace(".", os.sep) + ".lean")
    with open(path) as f:
        src = f.read()
    src_nc = strip_comments(src)
    names = []
    ns = []
    for line in src_nc.split("\n"):
        m = re.match(r"^\s*namespace\s+(\S+)", line)
        if m:
            ns.append(m.group(1))
            continue
        m = re.match(r"^\s*end\s+(\S+)", line)
        if m and ns and ns[-1] == m.group(1):
            ns.pop()
            continue
        m = re.match(r"^\s*(?:@\[[^\]]*\]\s*)?theorem\s+(\S+)", line)
        if m:
            names.append(".".join(ns + [m.group(1)]))
    n_examples = len(re.findall(r"^\s*example\b", src_nc, re.M))
    return names, n_examples


def strip_comments(src):
    # nested block comments
    out = []
    depth = 0
    i = 0
    while i < len(src):
        if src.startswith("/-", i):
            depth += 1
            i += 2
        elif src.startswith("-/", i) and depth:
            depth -= 1
            i += 2
        elif depth:
            if src[i] == "\n":
                out.append("\n")
            i += 1
        elif src.startswith("--", i):
            while i < len(src) and src[i] != "\n":
                i += 1
        else:
            out.append(src[i])
            i += 1
    return "".join(out)


def forbidden_tokens(modules_or_paths):
    """Grep the (comment-stripped) sources for sorry/axiom/native_decide/…"""
    hits = []
    for m in modules_or_paths:
        path = m if m.endswith(".lean") else os.path.join(LEAN_DIR, m.replace(".", os.sep) + ".lean")
        try:
            with open(path) as f:
                src = strip_comments(f.read())
        except IOError:
            continue
        for n, line in enumerate(src.split("\n"), 1):
            if FORBIDDEN_SRC.search(line):
                hits.append("%s:%d: %s" % (os.path.relpath(path, LEAN_DIR), n, line.strip()[:120]))
    return hits


def all_project_sources():
    res = []
    for d, _, fs in os.walk(os.path.join(LEAN_DIR, "VC2")):
        for f in fs:
            if f.endswith(".lean"):
                res.append(os.path.join(d, f))
    res.append(os.path.join(LEAN_DIR, "Driver.lean"))
    return sorted(res)


def audit_axioms(module, names):
    """Run `#print axioms` on each theorem; returns {name: [axioms]} and raw output."""
    os.makedirs(os.path.join(LEAN_DIR, ".lake", "audit"), exist_ok=True)
    path = os.path.join(LEAN_DIR, ".lake", "audit", module.replace(".", "_") + ".lean")
    with open(path, "w") as f:
        f.write("import %s\n" % module)
        for n in names:
            f.write("#print axioms %s\n" % n)
    p = subprocess.run(
        ["lake", "env", "lean", path], cwd=LEAN_DIR, stdout=subprocess.PIPE, stderr=subprocess.STDOUT, timeout=1200
    )
    out = p.stdout.decode("utf-8", "replace")
    res = {}
    for m in re.finditer(r"'([^']+)' depends on axioms: \[([^\]]*)\]", out, re.S):
        res[m.group(1)] = [a.strip() for a in m.group(2).replace("\n", " ").split(",") if a.strip()]
    for m in re.finditer(r"'([^']+)' does not depend on any axioms", out):
        res[m.group(1)] = []
    return res, out, p.returncode


def leanchecker(modules):
    p = subprocess.run(
        ["lake", "env", "leanchecker"] + list(modules),
        cwd=LEAN_DIR,
        stdout=subprocess.PIPE,
        stderr=subprocess.STDOUT,
        timeout=3000,
    )
    return p.returncode == 0, p.stdout.decode("utf-8", "replace")[-2000:]


class Driver(object):
    """The compiled Lean model driver, spoken to through the line protocol."""

    def __init__(self):
        self.path = os.path.join(LEAN_DIR, ".lake", "build", "bin", "driver")

    def available(self):
        return os.path.exists(self.path)

    def run(self, lines, timeout=600):
        data = ("\n".join(lines) + "\n").encode("utf-8")
        p = subprocess.run([self.path], input=data, stdout=subprocess.PIPE, stderr=subprocess.PIPE, timeout=timeout)
        out = p.stdout.decode("utf-8", "replace").split("\n")
        if out and out[-1] == "":
            out.pop()
        if p.returncode != 0 or len(out) != len(lines):
            raise RuntimeError(
                "driver failed: rc=%s, %d lines in, %d out; stderr=%s"
                % (p.returncode, len(lines), len(out), p.stderr.decode("utf-8", "replace")[-500:])
            )
        return out


# ------------------------------------------------------------------ known findings
def known_findings(pid):
    path = os.path.join(ROOT, "known_findings.json")
    try:
        with open(path) as f:
            allf = json.load(f)
    except IOError:
        return []
    return [k for k in allf if pid in k.get("properties", [k.get("property")])]


# ------------------------------------------------------------------------ evidence
def write_evidence(pid, tier_, coverage, wall, violations=0, assumptions=None):
    os.makedirs(EVIDENCE_DIR, exist_ok=True)
    ev = {
        "property_id": pid,
        "tier": tier_,
        "seed": seed(),
        "level": "proof",
        "coverage": coverage,
        "assumptions": assumptions or [],
        "wall_s": round(wall, 2),
        "violations": violations,
    }
    path = os.path.join(EVIDENCE_DIR, pid + ".json")
    tmp = path + ".tmp%d" % os.getpid()
    with open(tmp, "w") as f:
        json.dump(ev, f, indent=1, sort_keys=True, default=str)
        f.write("\n")
    os.replace(tmp, path)
    return path


def write_replay(pid, payload):
    os.makedirs(REPLAY_DIR, exist_ok=True)
    path = os.path.join(REPLAY_DIR, "%s-seed%d.json" % (pid, seed()))
    with open(path, "w") as f:
        json.dump(payload, f, indent=1, sort_keys=True, default=str)
        f.write("\n")
    return path
